import Liquid.Scan
/-!
# The token pattern as the source writes it (translator T4, DESIGN 5.4)

`parser/scanner.go` never contains the token regular expression: `formTokenMatcher` *builds* its text
from the four delimiters with `fmt.Sprintf`, `regexp.QuoteMeta`, `strings.Join` and a loop over the
closing tag delimiter. This file holds both ends of the syntactic tie between that text and the model's
`tokenRe` (`Liquid/Scan.lean`):

* the source side — `StrExpr`/`TokenReSrc`: the string-building expressions of `formTokenMatcher` as
  data (what translator T4 writes into `Generated/TokenRe.lean`), and `TokenReSrc.pattern`, their
  meaning: the text handed to `regexp.MustCompile` for a delimiter list;
* the model side — `Re.toGoSyntax`: the model's regular expression written in Go (RE2) syntax.

The obligation `token_re_is_source` (`Proofs/TokenRe.lean`) equates the two.

## The normal form printed by `Re.toGoSyntax`

One regular expression has many spellings. The printer fixes one, by these rules only:

* a byte is written with `regexp.QuoteMeta` (`{` ↦ `\{`), a negated byte as `[^…]` around the same
  quoting; `\s`, `\w`; `.` (any byte but newline) and `(?s:.)` (any byte): *the flag `s` is scoped to
  the single dot*;
* derived forms are recognised structurally: `alt a eps` is `a?` (`alt eps a` is `a??`),
  `seq a (star g a)` is `a+` / `a+?`, `star` is `*` / `*?`;
* a capture group is `( … )`; groups are numbered by Go in the order of their opening parentheses,
  `Re.groupOrder` lists the model's indices in that order (it must be `1, 2, 3, …`);
* parentheses: the operand of a postfix operator is wrapped in a non-capturing group `(?: … )` unless
  it is a single `chr` or a capture group; an alternation is wrapped when it is an operand of a
  concatenation or of a postfix operator; nothing else is ever wrapped.

The source spells the object arguments `((?s:.+?))` — flag group around the *repetition* — where the
normal form has `((?s:.)+?)`. The two are the same expression (`(?s:X)` only sets the flag for the dots
inside `X`; there is one dot). `normalizeFormat` rewrites exactly this spelling in the *format string*
(a literal of the source, so the rewriting is a computation on known bytes) before the pattern is
built; every other character of the source pattern is reproduced by the printer as it stands, including
the redundant group of `(?:[^x])+?` for a one-byte delimiter (there the operand is the `seq` of an empty
literal prefix and the class).

Byte/rune caveat (the model's, not the printer's): the model matches bytes, Go matches runes of the
UTF-8 decoding. The printed text is the Go spelling of the expression read over runes; the two readings
agree on what `Scan` extracts (tied by the `scan` and `rex` streams), and the `range` loop of the source
over `delims[3]` is a loop over *bytes* only for an ASCII delimiter — `TokenReSrc.pattern` answers
`none` otherwise.
-/

/-! ## `regexp.QuoteMeta` -/

/-- `regexp.special`: the bytes of ``\.+*?()|[]{}^$`` -/
def isRegexSpecial (b : UInt8) : Bool :=
  b == 92 || b == 46 || b == 43 || b == 42 || b == 63 || b == 40 || b == 41 || b == 124 ||
  b == 91 || b == 93 || b == 123 || b == 125 || b == 94 || b == 36

def quoteByte (b : UInt8) : Bytes := if isRegexSpecial b then [92, b] else [b]

/-- `regexp.QuoteMeta` (it works on bytes; bytes ≥ 0x80 are never special) -/
def quoteMeta : Bytes → Bytes
  | [] => []
  | b :: r => quoteByte b ++ quoteMeta r

/-! ## The model's expression in Go syntax -/

deriving instance DecidableEq for Re

def Pred.toGo : Pred → Bytes
  | .eq b => quoteByte b
  | .ne b => [91, 94] ++ quoteByte b ++ [93]            -- [^b]
  | .space => [92, 115]                                  -- \s
  | .word => [92, 119]                                   -- \w
  | .anyNoNL => [46]                                     -- .
  | .any => [40, 63, 115, 58, 46, 41]                    -- (?s:.)

/-- `(?:s)` when `c`, else `s` -/
def goWrap (c : Bool) (s : Bytes) : Bytes := if c then [40, 63, 58] ++ s ++ [41] else s

/-- `?` after a repetition operator when it is lazy -/
def lazyMark (greedy : Bool) : Bytes := if greedy then [] else [63]

/-- Printer with a context: `0` = operand of `|` (or top level), `1` = operand of a concatenation,
`2` = operand of a postfix operator. -/
def Re.toGoP : Re → Nat → Bytes
  | .chr p, _ => p.toGo
  | .eps, ctx => goWrap (2 ≤ ctx) []
  | .group _ a, _ => [40] ++ a.toGoP 0 ++ [41]
  | .star g a, ctx => goWrap (2 ≤ ctx) (a.toGoP 2 ++ [42] ++ lazyMark g)
  | .alt a .eps, ctx => goWrap (2 ≤ ctx) (a.toGoP 2 ++ [63])
  | .alt .eps a, ctx => goWrap (2 ≤ ctx) (a.toGoP 2 ++ [63, 63])
  | .alt a b, ctx => goWrap (1 ≤ ctx) (a.toGoP 0 ++ [124] ++ b.toGoP 0)
  | .seq a (.star g b), ctx =>
    if a = b then goWrap (2 ≤ ctx) (a.toGoP 2 ++ [43] ++ lazyMark g)
    else goWrap (2 ≤ ctx) (a.toGoP 1 ++ (b.toGoP 2 ++ [42] ++ lazyMark g))
  | .seq a b, ctx => goWrap (2 ≤ ctx) (a.toGoP 1 ++ b.toGoP 1)

/-- the model's regular expression in Go syntax (normal form above) -/
def Re.toGoSyntax (r : Re) : Bytes := r.toGoP 0

/-- the group indices in the order of their opening parentheses in `toGoSyntax` -/
def Re.groupOrder : Re → List Nat
  | .chr _ => []
  | .eps => []
  | .group i a => i :: a.groupOrder
  | .star _ a => a.groupOrder
  | .alt a b => a.groupOrder ++ b.groupOrder
  | .seq a (.star _ b) => if a = b then a.groupOrder else a.groupOrder ++ b.groupOrder
  | .seq a b => a.groupOrder ++ b.groupOrder

/-! ## The source side -/

/-- a Go string expression of `formTokenMatcher` (`delims` is its parameter) -/
inductive StrExpr where
  /-- a string literal -/
  | lit (s : Bytes)
  /-- `delims[i]` -/
  | delim (i : Nat)
  /-- `delims[i][0:idx]`, `idx` the key of the enclosing `range delims[i]` loop -/
  | delimPrefix (i : Nat)
  /-- `string(val)`, `val` the value of the enclosing `range` loop -/
  | rangeVal
  /-- `regexp.QuoteMeta(e)` -/
  | quote (e : StrExpr)
  /-- `a + b` -/
  | cat (a b : StrExpr)
  /-- `strings.Join(exclusion, sep)`, `exclusion` the slice filled by the loop -/
  | joinExcl (sep : Bytes)
  deriving Repr, DecidableEq, Inhabited

/-- `formTokenMatcher` as data: `regexp.MustCompile(fmt.Sprintf(format, args…))` after
`for idx, val := range delims[exclOver] { exclusion = append(exclusion, exclItem) }` -/
structure TokenReSrc where
  format : Bytes
  args : List StrExpr
  exclOver : Nat
  exclItem : StrExpr
  deriving Repr, DecidableEq, Inhabited

structure StrEnv where
  delims : List Bytes
  idx : Nat := 0
  val : Bytes := []
  excl : List Bytes := []

def joinBytes (sep : Bytes) : List Bytes → Bytes
  | [] => []
  | [a] => a
  | a :: r => a ++ sep ++ joinBytes sep r

def StrExpr.eval (env : StrEnv) : StrExpr → Option Bytes
  | .lit s => some s
  | .delim i => env.delims[i]?
  | .delimPrefix i => (env.delims[i]?).map (·.take env.idx)
  | .rangeVal => some env.val
  | .quote e => (e.eval env).map quoteMeta
  | .cat a b => match a.eval env, b.eval env with
    | some x, some y => some (x ++ y)
    | _, _ => none
  | .joinExcl sep => some (joinBytes sep env.excl)

/-- `fmt.Sprintf` restricted to what occurs: verbs `%s` and `%v` applied to strings, `%%`.
Anything else (another verb, a missing or an extra argument) is outside the fragment: `none`. -/
def sprintf : Bytes → List Bytes → Option Bytes
  | [], [] => some []
  | [], _ :: _ => none
  | b :: r, as =>
    if b != 37 then (sprintf r as).map (b :: ·) else
    match r with
    | [] => none
    | v :: r' =>
      if v == 37 then (sprintf r' as).map (37 :: ·)
      else if v == 115 || v == 118 then
        match as with
        | a :: as' => (sprintf r' as').map (a ++ ·)
        | [] => none
      else none

def evalAll (env : StrEnv) : List StrExpr → Option (List Bytes)
  | [] => some []
  | e :: r => match e.eval env, evalAll env r with
    | some x, some xs => some (x :: xs)
    | _, _ => none

/-- the loop `for idx, val := range s`, for an ASCII `s` (one iteration per byte) -/
def exclusionLoop (delims : List Bytes) (item : StrExpr) (s : Bytes) : List Nat → Option (List Bytes)
  | [] => some []
  | i :: r => match s[i]? with
    | none => none
    | some b => match item.eval { delims := delims, idx := i, val := [b] }, exclusionLoop delims item s r with
      | some x, some xs => some (x :: xs)
      | _, _ => none

def isAscii (s : Bytes) : Bool := s.all (· < 128)

/-- the text `formTokenMatcher(delims)` hands to `regexp.MustCompile` -/
def TokenReSrc.pattern (src : TokenReSrc) (delims : List Bytes) : Option Bytes :=
  match delims[src.exclOver]? with
  | none => none
  | some s =>
    if !isAscii s then none else
    match exclusionLoop delims src.exclItem s (List.range s.length) with
    | none => none
    | some excl =>
      match evalAll { delims := delims, excl := excl } src.args with
      | none => none
      | some as => sprintf src.format as

/-! ## Normalisation of the source spelling -/

/-- replace every occurrence of `pat` in `s` by `rep` (left to right, non-overlapping); the counter is
the number of bytes still to skip after a replacement -/
def replaceAllAux (pat rep : Bytes) : Nat → Bytes → Bytes
  | _, [] => []
  | n+1, _ :: r => replaceAllAux pat rep n r
  | 0, b :: r =>
    if !pat.isEmpty && isPrefixOfB pat (b :: r) then rep ++ replaceAllAux pat rep (pat.length - 1) r
    else b :: replaceAllAux pat rep 0 r

def replaceAll (pat rep s : Bytes) : Bytes := replaceAllAux pat rep 0 s

/-- `(?s:.+?)` ↦ `(?s:.)+?` : scope the flag `s` to the dot (see the header) -/
def normalizeFormat (fmt : Bytes) : Bytes :=
  replaceAll [40, 63, 115, 58, 46, 43, 63, 41] [40, 63, 115, 58, 46, 41, 43, 63] fmt

def TokenReSrc.normalized (src : TokenReSrc) : TokenReSrc := { src with format := normalizeFormat src.format }

def Delims.toList (d : Delims) : List Bytes := [d.ol, d.or, d.tl, d.tr]

/-- The structure of `formTokenMatcher` the theorems are proved for; `token_re_src_is_standard`
re-checks on every run that it is what T4 extracts. Format:
``%s-?\s*((?s:.+?))\s*-?%s|%s-?\s*(\w+)(?:\s+((?:%v)+?))?\s*-?%s`` -/
def stdTokenReSrc : TokenReSrc :=
  { format := [37, 115, 45, 63, 92, 115, 42, 40, 40, 63, 115, 58, 46, 43, 63, 41, 41, 92, 115, 42, 45, 63, 37, 115, 124,
               37, 115, 45, 63, 92, 115, 42, 40, 92, 119, 43, 41, 40, 63, 58, 92, 115, 43, 40, 40, 63, 58, 37, 115, 41,
               43, 63, 41, 41, 63, 92, 115, 42, 45, 63, 37, 115],
    args := [.quote (.delim 0), .quote (.delim 1), .quote (.delim 2), .joinExcl [124], .quote (.delim 3)],
    exclOver := 3,
    exclItem := .cat (.quote (.delimPrefix 3)) (.cat (.lit [91, 94]) (.cat (.quote .rangeVal) (.lit [93]))) }
