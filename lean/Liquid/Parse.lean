import Liquid.Scan
/-!
# The block parser: model of `parser/parser.go:parseTokens` and `render/blocks.go`

The same explicit stack machine as the Go code, written as a fold over the tokens. The AST
under construction is a zipper: the current append point (`cur`, reversed) plus a stack of
partially built blocks. "Pop on an empty stack" cannot be written in this representation
without a guard, exactly as in the Go code (`RequiresParent`/`CanHaveParent` precede the pop).
-/

/-- one `AddBlock(name).Clause(c₁).Clause(c₂)…` chain of `AddStandardTags` -/
structure BlockDef where
  name : Bytes
  clauses : List Bytes
  deriving Repr, DecidableEq

abbrev Grammar := List BlockDef

inductive Syn where
  | start (name : Bytes)
  | clause (name : Bytes) (parents : List Bytes)
  | end_ (name : Bytes) (startName : Bytes)
  deriving Repr, DecidableEq

def endPrefix : Bytes := [101, 110, 100]   -- "end"
def commentName : Bytes := [99, 111, 109, 109, 101, 110, 116]
def rawName : Bytes := [114, 97, 119]
def endcommentName : Bytes := endPrefix ++ commentName
def endrawName : Bytes := endPrefix ++ rawName

/-- `grammar.BlockSyntax(name)`: the block-start definitions, their `end…` tags, and the
    clause names with the set of blocks that admit them. -/
def Grammar.syntaxOf (g : Grammar) (name : Bytes) : Option Syn :=
  if g.any (fun b => b.name == name) then some (.start name)
  else match g.find? (fun b => endPrefix ++ b.name == name) with
    | some b => some (.end_ name b.name)
    | none =>
      let parents := (g.filter (fun b => b.clauses.contains name)).map (·.name)
      if parents.isEmpty then none else some (.clause name parents)

inductive AST where
  | text (tok : Token)
  | obj (tok : Token)
  | tag (tok : Token)
  | trim (left : Bool)
  | raw (slices : List Bytes)
  | block (tok : Token) (body : List AST) (clauses : List (Token × List AST))
  deriving Repr, Inhabited

inductive PErrKind where
  | objSyntax (c : Cause)          -- expressions.Parse failed on an object
  | notInside                      -- clause/end tag without its block
  | unterminated                   -- end of input inside a block / comment / raw
  | tagSyntax (c : Cause)          -- compile: a tag's or block's arguments do not parse
  | undefinedTag                   -- compile: no such tag
  deriving Repr, DecidableEq

structure PErr where
  kind : PErrKind
  line : Nat
  deriving Repr, DecidableEq

/-- a block under construction -/
structure Frame where
  tok : Token                               -- the opening tag
  outer : List AST                          -- enclosing append point (reversed)
  body : Option (List AST)                  -- `some` once the first clause has started
  clauses : List (Token × List AST)         -- finished clauses (reversed)
  cur : Option Token                        -- clause being filled (`none`: still in the body)
  deriving Repr

inductive PMode where
  | normal
  | comment (openTok : Token)
  | raw (openTok : Token) (slicesRev : List Bytes)
  deriving Repr

structure PState where
  cur : List AST := []                      -- current append point (reversed)
  stack : List Frame := []
  mode : PMode := .normal
  deriving Repr

def closeFrame (f : Frame) (cur : List AST) : AST :=
  match f.cur, f.body with
  | none, _ => .block f.tok cur.reverse []
  | some c, some body => .block f.tok body (f.clauses.reverse ++ [(c, cur.reverse)])
  | some c, none => .block f.tok [] (f.clauses.reverse ++ [(c, cur.reverse)])   -- unreachable

/-- `cs.RequiresParent() && (sd == nil || !cs.CanHaveParent(sd))` for the innermost open block -/
def parentOk (cs : Syn) (top : Option Frame) : Bool :=
  match cs, top with
  | .start _, _ => true
  | _, none => false
  | .clause _ parents, some f => parents.contains f.tok.name
  | .end_ _ startName, some f => f.tok.name == startName

/-- one iteration of the token loop; `chk` is `expressions.Parse` on an object's arguments -/
def parseStep (g : Grammar) (chk : Bytes → Option Cause) (s : PState) (tok : Token) : Res PErr PState :=
  match s.mode with
  | .comment o =>
    if tok.ty == .tag && tok.name == endcommentName then .ok { s with mode := .normal } else
    let _ := o; .ok s
  | .raw o sl =>
    if tok.ty == .tag && tok.name == endrawName then
      .ok { s with cur := .raw sl.reverse :: s.cur, mode := .normal }
    else .ok { s with mode := .raw o (tok.source :: sl) }
  | .normal =>
    match tok.ty with
    | .obj =>
      match chk tok.args with
      | some c => .err ⟨.objSyntax c, tok.line⟩
      | none => .ok { s with cur := .obj tok :: s.cur }
    | .text => .ok { s with cur := .text tok :: s.cur }
    | .trimL => .ok { s with cur := .trim true :: s.cur }
    | .trimR => .ok { s with cur := .trim false :: s.cur }
    | .tag =>
      match g.syntaxOf tok.name with
      | none => .ok { s with cur := .tag tok :: s.cur }
      | some cs =>
        if tok.name == commentName then .ok { s with mode := .comment tok }
        else if tok.name == rawName then .ok { s with mode := .raw tok [] }
        else if !parentOk cs s.stack.head? then .err ⟨.notInside, tok.line⟩
        else match cs, s.stack with
          | .start _, st =>
            .ok { cur := [], stack := { tok := tok, outer := s.cur, body := none, clauses := [], cur := none } :: st, mode := .normal }
          | .clause _ _, f :: fs =>
            (match f.cur with
             | none => .ok { cur := [], stack := { f with body := some s.cur.reverse, cur := some tok } :: fs, mode := .normal }
             | some c0 => .ok { cur := [], stack := { f with clauses := (c0, s.cur.reverse) :: f.clauses, cur := some tok } :: fs, mode := .normal })
          | .end_ _ _, f :: fs =>
            .ok { cur := closeFrame f s.cur :: f.outer, stack := fs, mode := .normal }
          | _, [] => .panic "pop of an empty block stack"   -- excluded by parentOk

def parseLoop (g : Grammar) (chk : Bytes → Option Cause) : PState → List Token → Res PErr PState
  | s, [] => .ok s
  | s, t :: ts =>
    match parseStep g chk s t with
    | .ok s' => parseLoop g chk s' ts
    | .err e => .err e
    | .panic w => .panic w
    | .unmodelled w => .unmodelled w

/-- model of `Config.parseTokens` -/
def parseTokens (g : Grammar) (chk : Bytes → Option Cause) (toks : List Token) : Res PErr (List AST) :=
  match parseLoop g chk {} toks with
  | .ok s =>
    match s.mode with
    | .comment o => .err ⟨.unterminated, o.line⟩
    | .raw o _ => .err ⟨.unterminated, o.line⟩
    | .normal =>
      match s.stack with
      | f :: _ => .err ⟨.unterminated, f.tok.line⟩
      | [] => .ok s.cur.reverse
  | .err e => .err e
  | .panic w => .panic w
  | .unmodelled w => .unmodelled w

/-- the table `AddStandardTags` builds (checked against the source by translator T1) -/
def stdGrammar : Grammar :=
  [ ⟨[99, 97, 112, 116, 117, 114, 101], []⟩,                                   -- capture
    ⟨[99, 97, 115, 101], [[101, 108, 115, 101], [119, 104, 101, 110]]⟩,        -- case: else when (T1 writes names sorted)
    ⟨commentName, []⟩,
    ⟨[102, 111, 114], [[101, 108, 115, 101]]⟩,                                 -- for: else
    ⟨[105, 102], [[101, 108, 115, 101], [101, 108, 115, 105, 102]]⟩,           -- if: else elsif
    ⟨rawName, []⟩,
    ⟨[116, 97, 98, 108, 101, 114, 111, 119], []⟩,                              -- tablerow
    ⟨[117, 110, 108, 101, 115, 115], [[101, 108, 115, 101]]⟩ ]                 -- unless: else

/-- plain (non-block) tags of `AddStandardTags` -/
def stdTags : List Bytes :=
  [ [97, 115, 115, 105, 103, 110], [98, 114, 101, 97, 107], [99, 111, 110, 116, 105, 110, 117, 101],
    [99, 121, 99, 108, 101], [105, 110, 99, 108, 117, 100, 101] ]       -- assign break continue cycle include (sorted)

/-! ## Printing (line protocol): the shape of the tree -/

mutual
def AST.shape : AST → String
  | .text t => s!"X{t.line}"
  | .obj t => s!"O{t.line}"
  | .tag t => s!"T{t.line}:{hexField t.name}"
  | .trim true => "L"
  | .trim false => "R"
  | .raw sl => "W:" ++ hexField sl.flatten
  | .block t body cls => s!"B{t.line}:{hexField t.name}(" ++ AST.shapeList body ++ AST.shapeClauses cls ++ ")"
def AST.shapeList : List AST → String
  | [] => ""
  | n :: ns => n.shape ++ ";" ++ AST.shapeList ns
def AST.shapeClauses : List (Token × List AST) → String
  | [] => ""
  | (t, body) :: cs => s!"|C{t.line}:{hexField t.name}(" ++ AST.shapeList body ++ ")" ++ AST.shapeClauses cs
end
