import Liquid.ExprLex
/-!
# The expression parser: a recursive-descent model of `expressions/expressions.y`

```
start:  cond ';' | ASSIGN IDENT '=' cond ';' | CYCLE cycle ';' | LOOP loop ';' | WHEN exprs ';'
expr:   LITERAL | IDENT | expr PROPERTY | expr '[' expr ']' | '(' expr DOTDOT expr ')' | '(' cond ')'
filtered: expr | filtered '|' IDENT | filtered '|' KEYWORD filter_params
rel:    filtered | expr (EQ|NEQ|'>'|'<'|GE|LE|CONTAINS) expr
cond:   rel | cond AND rel | cond OR rel          (equal precedence, left associative)
loop:   IDENT IN filtered loop_modifiers ; modifiers: `reversed` | (cols|limit|offset): expr
cycle:  string [':' string] (',' string)*
```
The yacc tables of `y.go` are not translated; agreement of accept/reject and of the meaning of
the resulting tree with the generated parser is a correspondence stream (`expr`).
-/

inductive RelOp where
  | eq | ne | gt | lt | ge | le | contains
  deriving Repr, DecidableEq, Inhabited

inductive Expr where
  | lit (v : GoVal)
  | var (name : Bytes)
  | prop (e : Expr) (name : Bytes)
  | index (e i : Expr)
  | range (a b : Expr)
  | rel (op : RelOp) (a b : Expr)
  | and_ (a b : Expr)
  | or_ (a b : Expr)
  | filter (e : Expr) (name : Bytes) (args : List Expr)
  deriving Repr, Inhabited

structure LoopMods where
  limit : Option Expr := none
  offset : Option Expr := none
  cols : Option Expr := none
  reversed : Bool := false
  deriving Repr, Inhabited

inductive Stmt where
  | expr (e : Expr)
  | assign (name : Bytes) (e : Expr)
  | cycle (group : Bytes) (first : Bytes) (rest : List Bytes)   -- the grammar guarantees at least one value
  | loop (var : Bytes) (e : Expr) (mods : LoopMods)
  | when (es : List Expr)
  deriving Repr, Inhabited

abbrev PR (α : Type) := Option (α × List ETok)

def isCh (t : ETok) (b : UInt8) : Bool :=
  match t with
  | .ch c => c == b
  | _ => false

def relOpOf : ETok → Option RelOp
  | .eq => some .eq | .neq => some .ne | .ge => some .ge | .le => some .le | .contains => some .contains
  | .ch 62 => some .gt | .ch 60 => some .lt
  | _ => none

mutual
/-- primary followed by postfix `.prop` / `[i]` -/
def parseExpr : Nat → List ETok → PR Expr
  | 0, _ => none
  | f+1, toks =>
    match parsePrimary f toks with
    | some (e, r) => parsePostfix f e r
    | none => none

def parsePrimary : Nat → List ETok → PR Expr
  | 0, _ => none
  | f+1, toks =>
    match toks with
    | .lit v :: r => some (.lit v, r)
    | .ident x :: r => some (.var x, r)
    | .ch 40 :: r =>            -- '('
      -- '(' expr DOTDOT expr ')'  |  '(' cond ')'
      (match parseExpr f r with
       | some (a, .dotdot :: r1) =>
         (match parseExpr f r1 with
          | some (b, .ch 41 :: r2) => some (.range a b, r2)
          | _ => none)
       | some (a, r1) =>
         (match parseCondFrom f a r1 with
          | some (c, .ch 41 :: r2) => some (c, r2)
          | _ => none)
       | none => none)
    | _ => none

def parsePostfix : Nat → Expr → List ETok → PR Expr
  | 0, _, _ => none
  | f+1, e, toks =>
    match toks with
    | .property p :: r => parsePostfix f (.prop e p) r
    | .ch 91 :: r =>            -- '['
      (match parseExpr f r with
       | some (i, .ch 93 :: r1) => parsePostfix f (.index e i) r1
       | _ => none)
    | _ => some (e, toks)

/-- filter chain after a first `expr` -/
def parseFilters : Nat → Expr → List ETok → PR Expr
  | 0, _, _ => none
  | f+1, e, toks =>
    match toks with
    | .ch 124 :: .ident name :: r => parseFilters f (.filter e name []) r
    | .ch 124 :: .keyword name :: r =>
      (match parseParams f r with
       | some (args, r1) => parseFilters f (.filter e name args) r1
       | none => none)
    | .ch 124 :: _ => none
    | _ => some (e, toks)

/-- `filter_params: expr | filter_params ',' expr` -/
def parseParams : Nat → List ETok → PR (List Expr)
  | 0, _ => none
  | f+1, toks =>
    match parseExpr f toks with
    | some (a, .ch 44 :: r) =>
      (match parseParams f r with
       | some (as, r1) => some (a :: as, r1)
       | none => none)
    | some (a, r) => some ([a], r)
    | none => none

/-- `rel` given its first `expr` already parsed -/
def parseRelFrom : Nat → Expr → List ETok → PR Expr
  | 0, _, _ => none
  | f+1, a, toks =>
    match toks with
    | t :: r =>
      (match relOpOf t with
       | some op =>
         (match parseExpr f r with
          | some (b, r1) => some (.rel op a b, r1)
          | none => none)
       | none => parseFilters f a toks)
    | [] => some (a, [])

/-- `cond` given the first `expr` of its first `rel` -/
def parseCondFrom : Nat → Expr → List ETok → PR Expr
  | 0, _, _ => none
  | f+1, a, toks =>
    match parseRelFrom f a toks with
    | some (c, r) => parseCondTail f c r
    | none => none

def parseCondTail : Nat → Expr → List ETok → PR Expr
  | 0, _, _ => none
  | f+1, c, toks =>
    match toks with
    | .and_ :: r =>
      (match parseRel f r with
       | some (d, r1) => parseCondTail f (.and_ c d) r1
       | none => none)
    | .or_ :: r =>
      (match parseRel f r with
       | some (d, r1) => parseCondTail f (.or_ c d) r1
       | none => none)
    | _ => some (c, toks)

def parseRel : Nat → List ETok → PR Expr
  | 0, _ => none
  | f+1, toks =>
    match parseExpr f toks with
    | some (a, r) => parseRelFrom f a r
    | none => none
end

def parseCond (f : Nat) (toks : List ETok) : PR Expr :=
  match parseExpr f toks with
  | some (a, r) => parseCondFrom f a r
  | none => none

/-- `filtered` (loop collection) -/
def parseFiltered (f : Nat) (toks : List ETok) : PR Expr :=
  match parseExpr f toks with
  | some (a, r) => parseFilters f a r
  | none => none

inductive ParseErr where
  | syntax
  deriving Repr, DecidableEq

def kwReversed : Bytes := [114, 101, 118, 101, 114, 115, 101, 100]
def kwCols : Bytes := [99, 111, 108, 115]
def kwLimit : Bytes := [108, 105, 109, 105, 116]
def kwOffset : Bytes := [111, 102, 102, 115, 101, 116]

/-- `loop_modifiers`; an unknown modifier is the grammar action's `SyntaxError` panic -/
def parseMods : Nat → Nat → LoopMods → List ETok → PR LoopMods
  | 0, _, _, _ => none
  | n+1, f, m, toks =>
    match toks with
    | .ident x :: r => if x == kwReversed then parseMods n f { m with reversed := true } r else none
    | .keyword k :: r =>
      (match parseExpr f r with
       | some (e, r1) =>
         if k == kwCols then parseMods n f { m with cols := some e } r1
         else if k == kwLimit then parseMods n f { m with limit := some e } r1
         else if k == kwOffset then parseMods n f { m with offset := some e } r1
         else none
       | none => none)
    | _ => some (m, toks)

def strLit : ETok → Option Bytes
  | .lit (.str s) => some s
  | _ => none

/-- `cycle3: ε | ',' string cycle3` -/
def parseCycle3 : Nat → List ETok → PR (List Bytes)
  | 0, _ => none
  | n+1, toks =>
    match toks with
    | .ch 44 :: t :: r =>
      (match strLit t with
       | some s => (parseCycle3 n r).map fun (ss, r1) => (s :: ss, r1)
       | none => none)
    | .ch 44 :: [] => none
    | _ => some ([], toks)

def parseExprList : Nat → Nat → List ETok → PR (List Expr)
  | 0, _, _ => none
  | n+1, f, toks =>
    match parseExpr f toks with
    | some (a, .ch 44 :: r) => (parseExprList n f r).map fun (as, r1) => (a :: as, r1)
    | some (a, r) => some ([a], r)
    | none => none

/-- accept exactly `… ';'` followed by nothing -/
def endOk : List ETok → Bool
  | [.ch 59] => true
  | _ => false

def parseTokensE (toks : List ETok) : Option Stmt :=
  let f := 8 * toks.length + 16
  match toks with
  | .assign :: .ident x :: .ch 61 :: r =>
    (match parseCond f r with
     | some (e, r1) => if endOk r1 then some (.assign x e) else none
     | none => none)
  | .assign :: _ => none
  | .cycle :: t :: r =>
    (match strLit t with
     | some s0 =>
       (match r with
        | .ch 58 :: t1 :: r1 =>
          (match strLit t1 with
           | some s1 =>
             (match parseCycle3 f r1 with
              | some (ss, r2) => if endOk r2 then some (.cycle s0 s1 ss) else none
              | none => none)
           | none => none)
        | _ =>
          (match parseCycle3 f r with
           | some (ss, r2) => if endOk r2 then some (.cycle [] s0 ss) else none
           | none => none))
     | none => none)
  | .cycle :: _ => none
  | .loop :: .ident x :: .in_ :: r =>
    (match parseFiltered f r with
     | some (e, r1) =>
       (match parseMods f f {} r1 with
        | some (m, r2) => if endOk r2 then some (.loop x e m) else none
        | none => none)
     | none => none)
  | .loop :: _ => none
  | .when :: r =>
    (match parseExprList f f r with
     | some (es, r1) => if endOk r1 then some (.when es) else none
     | none => none)
  | _ =>
    (match parseCond f toks with
     | some (e, r1) => if endOk r1 then some (.expr e) else none
     | none => none)

/-- model of `expressions.parse(source)`: lex `source ++ ";"`, then parse.
    Any lexing or parsing failure is a `SyntaxError`. -/
def parseSource (source : Bytes) : Res ParseErr Stmt :=
  match lex source with
  | (_, some (.err _)) => .err .syntax
  | (_, some (.panic w)) => .panic w
  | (_, some (.unmodelled w)) => .unmodelled w
  | (_, some (.ok _)) => .err .syntax
  | (toks, none) =>
    match parseTokensE toks with
    | some s => .ok s
    | none => .err .syntax

/-- model of `expressions.Parse` (after the repair of D22: a statement is not an expression) -/
def parseExprSource (source : Bytes) : Res ParseErr Expr :=
  match parseSource source with
  | .ok (.expr e) => .ok e
  | .ok _ => .err .syntax
  | .err e => .err e
  | .panic w => .panic w
  | .unmodelled w => .unmodelled w

/-- model of `expressions.ParseStatement(sel, source)` -/
def parseStatement (sel : Bytes) (source : Bytes) : Res ParseErr Stmt := parseSource (sel ++ source)
