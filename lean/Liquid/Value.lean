import Liquid.Basic
/-!
# The value universe (DESIGN §4.3)

`GoVal` is a Go value *with its representation*: numeric width, typed vs generic container,
ordered map, pointer, drop. C18 is about exactly these distinctions, and `values.Equal`,
`Convert`, `fmt.Sprint` dispatch on them.

Floats are exact rationals (every finite `float64` is one); NaN, ±Inf and −0 are outside the
model (`unmodelled`). A `map`'s entry list is in no particular order (a Go map has none): every
operation that iterates a map sorts the entries first (`Liquid/MapOrder.lean`: the order of
`values.SortedMapKeys`), as the repaired code does; lookups find the entry by its key.
-/

inductive IntKind where
  | int | i8 | i16 | i32 | i64 | uint | u8 | u16 | u32 | u64
  deriving Repr, DecidableEq, Inhabited

inductive FltKind where
  | f32 | f64
  deriving Repr, DecidableEq, Inhabited

def IntKind.isSigned : IntKind → Bool
  | .int | .i8 | .i16 | .i32 | .i64 => true
  | _ => false

def IntKind.bits : IntKind → Nat
  | .int | .i64 | .uint | .u64 => 64
  | .i8 | .u8 => 8
  | .i16 | .u16 => 16
  | .i32 | .u32 => 32

def IntKind.minVal (k : IntKind) : Int := if k.isSigned then -(2 ^ (k.bits - 1) : Int) else 0
def IntKind.maxVal (k : IntKind) : Int := if k.isSigned then (2 ^ (k.bits - 1) : Int) - 1 else (2 ^ k.bits : Int) - 1
def IntKind.inRange (k : IntKind) (n : Int) : Bool := k.minVal ≤ n && n ≤ k.maxVal

def IntKind.code : IntKind → Nat
  | .int => 0 | .i8 => 1 | .i16 => 2 | .i32 => 3 | .i64 => 4
  | .uint => 5 | .u8 => 6 | .u16 => 7 | .u32 => 8 | .u64 => 9

def IntKind.ofCode : Nat → IntKind
  | 0 => .int | 1 => .i8 | 2 => .i16 | 3 => .i32 | 4 => .i64
  | 5 => .uint | 6 => .u8 | 7 => .u16 | 8 => .u32 | _ => .u64

def FltKind.code : FltKind → Nat
  | .f32 => 0 | .f64 => 1
def FltKind.ofCode : Nat → FltKind
  | 0 => .f32 | _ => .f64

/-- static Go types of container elements / map keys -/
inductive Ty where
  | any | bool | int (k : IntKind) | flt (k : FltKind) | str | bytes
  | slice (e : Ty) | arr (e : Ty) | map (k v : Ty)
  /-- the value slot of a map of an *unexported* named type of the library (at present only
      `tags.cycleCounters`, a `map[string]int` holding the cycle positions of a loop execution):
      `.map .str .priv kvs`. No binding can have this type (the line protocol does not decode it),
      so such a value always originates in the renderer. It behaves like `int` everywhere else. -/
  | priv
  deriving Repr, DecidableEq, Inhabited

inductive GoVal where
  | nil
  | bool (b : Bool)
  | int (k : IntKind) (n : Int)
  | flt (k : FltKind) (q : Rat)
  | str (s : Bytes)
  | bytes (s : Bytes)
  | slice (elem : Ty) (xs : List GoVal)
  | array (elem : Ty) (xs : List GoVal)
  | map (key val : Ty) (kvs : List (GoVal × GoVal))
  | mapSlice (kvs : List (GoVal × GoVal))
  | keyedMap (kvs : List (Bytes × GoVal))
  | range (a b : Int)
  | ptr (v : GoVal)
  | nilPtr
  | drop (v : GoVal)
  | struct (fields : List (Bytes × GoVal))
  | time (unix : Int)
  deriving Repr, Inhabited

namespace GoVal

/-- `values.ToLiquid` (after `fixes/nested-drops-resolved`): a drop that yields a drop is resolved in
    turn, until the value is no drop. The code stops after `maxDropDepth` = 64 drops in a row (a guard
    against a drop that yields itself, which no `GoVal` is); the model follows the chain to its end, and
    `GoVal.parse` admits no value in which the guard could be reached (`withinDropDepth`). -/
def toLiquid : GoVal → GoVal
  | .drop v => toLiquid v
  | .ptr (.drop v) => toLiquid v      -- the method set of *T includes T's ToLiquid
  | v => v

/-- generic `[]any` -/
def anys (xs : List GoVal) : GoVal := .slice .any xs
/-- Go `int` -/
def ofInt (n : Int) : GoVal := .int .int n
def f64 (q : Rat) : GoVal := .flt .f64 q
def ofStr (s : Bytes) : GoVal := .str s

def isNil : GoVal → Bool
  | .nil => true
  | _ => false

/-- `maxDropDepth` of `values/drop.go`: the number of drops in a row that `ToLiquid` resolves, and the
    depth to which `ResolveDrops` descends into containers -/
def maxDropDepth : Nat := 64

mutual
/-- a drop occurs somewhere in the value -/
def hasDrop : GoVal → Bool
  | .drop _ => true
  | .slice _ xs | .array _ xs => hasDropList xs
  | .map _ _ kvs | .mapSlice kvs => hasDropKVs kvs
  | .keyedMap fs | .struct fs => hasDropFields fs
  | .ptr v => hasDrop v
  | _ => false
def hasDropList : List GoVal → Bool
  | [] => false
  | x :: xs => hasDrop x || hasDropList xs
def hasDropKVs : List (GoVal × GoVal) → Bool
  | [] => false
  | (k, v) :: r => hasDrop k || hasDrop v || hasDropKVs r
def hasDropFields : List (Bytes × GoVal) → Bool
  | [] => false
  | (_, v) :: r => hasDrop v || hasDropFields r
end

mutual
/-- nesting depth of the value (constructors on the longest path) -/
def depth : GoVal → Nat
  | .drop v | .ptr v => depth v + 1
  | .slice _ xs | .array _ xs => depthList xs + 1
  | .map _ _ kvs | .mapSlice kvs => depthKVs kvs + 1
  | .keyedMap fs | .struct fs => depthFields fs + 1
  | _ => 1
def depthList : List GoVal → Nat
  | [] => 0
  | x :: xs => max (depth x) (depthList xs)
def depthKVs : List (GoVal × GoVal) → Nat
  | [] => 0
  | (k, v) :: r => max (max (depth k) (depth v)) (depthKVs r)
def depthFields : List (Bytes × GoVal) → Nat
  | [] => 0
  | (_, v) :: r => max (depth v) (depthFields r)
end

/-- the guards of `values.ToLiquid` / `values.ResolveDrops` (64 drops in a row, 64 levels of
    containers) cannot be reached in this value: it holds no drop, or is nested less deeply -/
def withinDropDepth (v : GoVal) : Bool := !v.hasDrop || v.depth ≤ maxDropDepth

end GoVal

/-! ## Line-protocol codec for `GoVal` (one field, no spaces, self-delimiting prefix code)

```
n | t | f | i<k>:<dec>; | d<k>:<num>/<den>; | s<hex>; | b<hex>;
L<ty>[ v* ] | A<ty>[ v* ] | M<kty><vty>{ (k v)* } | S{ (k v)* } | K{ (s<hex>; v)* }
R<a>:<b>; | P v | N | D v | T{ (s<hex>; v)* } | U<int>; | X<text>;   (X = not representable)
ty ::= a | o | i<k> | d<k> | s | y | l<ty> | r<ty> | m<kty><vty>
```
-/

def Ty.enc : Ty → String
  | .any => "a" | .bool => "o" | .int k => s!"i{k.code}" | .flt k => s!"d{k.code}"
  | .str => "s" | .bytes => "y" | .slice e => "l" ++ e.enc | .arr e => "r" ++ e.enc
  | .map k v => "m" ++ k.enc ++ v.enc
  | .priv => "z"

mutual
def GoVal.enc : GoVal → String
  | .nil => "n"
  | .bool true => "t"
  | .bool false => "f"
  | .int k n => s!"i{k.code}:{n};"
  | .flt k q => s!"d{k.code}:{q.num}/{q.den};"
  | .str s => "s" ++ hexEncode s ++ ";"
  | .bytes s => "b" ++ hexEncode s ++ ";"
  | .slice e xs => "L" ++ e.enc ++ "[" ++ GoVal.encList xs ++ "]"
  | .array e xs => "A" ++ e.enc ++ "[" ++ GoVal.encList xs ++ "]"
  | .map k v kvs => "M" ++ k.enc ++ v.enc ++ "{" ++ GoVal.encKVs kvs ++ "}"
  | .mapSlice kvs => "S{" ++ GoVal.encKVs kvs ++ "}"
  | .keyedMap kvs => "K{" ++ GoVal.encFields kvs ++ "}"
  | .range a b => s!"R{a}:{b};"
  | .ptr v => "P" ++ v.enc
  | .nilPtr => "N"
  | .drop v => "D" ++ v.enc
  | .struct fs => "T{" ++ GoVal.encFields fs ++ "}"
  | .time u => s!"U{u};"
def GoVal.encList : List GoVal → String
  | [] => ""
  | x :: xs => x.enc ++ GoVal.encList xs
def GoVal.encKVs : List (GoVal × GoVal) → String
  | [] => ""
  | (k, v) :: r => k.enc ++ v.enc ++ GoVal.encKVs r
def GoVal.encFields : List (Bytes × GoVal) → String
  | [] => ""
  | (k, v) :: r => "s" ++ hexEncode k ++ ";" ++ v.enc ++ GoVal.encFields r
end

/-! ### Decoder (fuel-bounded recursive descent over `List Char`) -/

abbrev P (α : Type) := List Char → Option (α × List Char)

def takeUntil (stop : Char) : List Char → List Char → Option (List Char × List Char)
  | _, [] => none
  | acc, c :: cs => if c == stop then some (acc.reverse, cs) else takeUntil stop (c :: acc) cs

def parseIntChars (cs : List Char) : Option Int :=
  match cs with
  | '-' :: ds => (String.ofList ds).toNat?.map (fun n => -(n : Int))
  | ds => (String.ofList ds).toNat?.map (fun n => (n : Int))

def digitVal (c : Char) : Nat := c.toNat - 48

def Ty.dec : Nat → P Ty
  | 0, _ => none
  | _+1, [] => none
  | f+1, c :: cs =>
    match c with
    | 'a' => some (.any, cs)
    | 'o' => some (.bool, cs)
    | 's' => some (.str, cs)
    | 'y' => some (.bytes, cs)
    | 'i' => match cs with
      | d :: r => some (.int (IntKind.ofCode (digitVal d)), r)
      | [] => none
    | 'd' => match cs with
      | d :: r => some (.flt (FltKind.ofCode (digitVal d)), r)
      | [] => none
    | 'l' => (Ty.dec f cs).map fun (t, r) => (.slice t, r)
    | 'r' => (Ty.dec f cs).map fun (t, r) => (.arr t, r)
    | 'm' => match Ty.dec f cs with
      | some (k, r) => (Ty.dec f r).map fun (v, r') => (.map k v, r')
      | none => none
    | _ => none

mutual
def GoVal.dec : Nat → P GoVal
  | 0, _ => none
  | _+1, [] => none
  | f+1, c :: cs =>
    match c with
    | 'n' => some (.nil, cs)
    | 't' => some (.bool true, cs)
    | 'f' => some (.bool false, cs)
    | 'N' => some (.nilPtr, cs)
    | 'i' => match cs with
      | d :: ':' :: r => match takeUntil ';' [] r with
        | some (ds, r') => (parseIntChars ds).map fun n => (.int (IntKind.ofCode (digitVal d)) n, r')
        | none => none
      | _ => none
    | 'd' => match cs with
      | d :: ':' :: r => match takeUntil '/' [] r with
        | some (ns, r1) => match takeUntil ';' [] r1 with
          | some (ds, r2) => match parseIntChars ns, (String.ofList ds).toNat? with
            | some n, some dn => some (.flt (FltKind.ofCode (digitVal d)) (mkRat n dn), r2)
            | _, _ => none
          | none => none
        | none => none
      | _ => none
    | 's' => (takeUntil ';' [] cs).map fun (h, r) => (.str (hexDecodeChars h), r)
    | 'b' => (takeUntil ';' [] cs).map fun (h, r) => (.bytes (hexDecodeChars h), r)
    | 'L' => match Ty.dec 64 cs with
      | some (t, '[' :: r) => (GoVal.decList f r).map fun (xs, r') => (.slice t xs, r')
      | _ => none
    | 'A' => match Ty.dec 64 cs with
      | some (t, '[' :: r) => (GoVal.decList f r).map fun (xs, r') => (.array t xs, r')
      | _ => none
    | 'M' => match Ty.dec 64 cs with
      | some (k, r) => match Ty.dec 64 r with
        | some (v, '{' :: r') => (GoVal.decKVs f r').map fun (kvs, r'') => (.map k v kvs, r'')
        | _ => none
      | none => none
    | 'S' => match cs with
      | '{' :: r => (GoVal.decKVs f r).map fun (kvs, r') => (.mapSlice kvs, r')
      | _ => none
    | 'K' => match cs with
      | '{' :: r => (GoVal.decFields f r).map fun (kvs, r') => (.keyedMap kvs, r')
      | _ => none
    | 'T' => match cs with
      | '{' :: r => (GoVal.decFields f r).map fun (kvs, r') => (.struct kvs, r')
      | _ => none
    | 'R' => match takeUntil ':' [] cs with
      | some (a, r) => match takeUntil ';' [] r with
        | some (b, r') => match parseIntChars a, parseIntChars b with
          | some x, some y => some (.range x y, r')
          | _, _ => none
        | none => none
      | none => none
    | 'P' => (GoVal.dec f cs).map fun (v, r) => (.ptr v, r)
    | 'D' => (GoVal.dec f cs).map fun (v, r) => (.drop v, r)
    | 'U' => match takeUntil ';' [] cs with
      | some (a, r) => (parseIntChars a).map fun n => (.time n, r)
      | none => none
    | _ => none
def GoVal.decList : Nat → P (List GoVal)
  | 0, _ => none
  | _+1, [] => none
  | f+1, c :: cs =>
    if c == ']' then some ([], cs) else
    match GoVal.dec f (c :: cs) with
    | some (v, r) => (GoVal.decList f r).map fun (vs, r') => (v :: vs, r')
    | none => none
def GoVal.decKVs : Nat → P (List (GoVal × GoVal))
  | 0, _ => none
  | _+1, [] => none
  | f+1, c :: cs =>
    if c == '}' then some ([], cs) else
    match GoVal.dec f (c :: cs) with
    | some (k, r) => match GoVal.dec f r with
      | some (v, r') => (GoVal.decKVs f r').map fun (kvs, r'') => ((k, v) :: kvs, r'')
      | none => none
    | none => none
def GoVal.decFields : Nat → P (List (Bytes × GoVal))
  | 0, _ => none
  | _+1, [] => none
  | f+1, c :: cs =>
    if c == '}' then some ([], cs) else
    match c with
    | 's' => match takeUntil ';' [] cs with
      | some (h, r) => match GoVal.dec f r with
        | some (v, r') => (GoVal.decFields f r').map fun (kvs, r'') => ((hexDecodeChars h, v) :: kvs, r'')
        | none => none
      | none => none
    | _ => none
end

/-- decode one protocol field; `none` for malformed input or a value outside the model (`X…`, or drops
    nested so deeply that the code's `maxDropDepth` guards could cut the resolution short) -/
def GoVal.parse (s : String) : Option GoVal :=
  let cs := s.toList
  match GoVal.dec (cs.length + 1) cs with
  | some (v, []) => if v.withinDropDepth then some v else none
  | _ => none
