import Liquid.Basic
/-!
# `time.Time` values in UTC: the proleptic Gregorian calendar (`$GOROOT/src/time/time.go`)

A time binding of the model is `GoVal.time (unix : Int)`: an instant with whole seconds, which the
harness realises as `time.Unix(u, 0).UTC()` (`harness/codec.go`). Everything the library asks of such
a value — `Format`, `String`, `Year`, `Month`, `Day`, `Weekday`, `YearDay`, `ISOWeek`, `Clock`,
`Unix`, `UnixNano` — is a function of the civil date and time of day in UTC, computed here from the
unix seconds for every `Int` (negative instants included; Go's `/` and `%` truncate, the model
uses floor division `Int.ediv`/`Int.emod` and converts where Go's own arithmetic is visible).

## Days ↔ civil date

`civilOfDays` / `daysOfCivil` count days from 1970-01-01. As in Go's `absDate` the day number is cut
into 400-year eras, centuries (at most 3 whole ones: the 4th is one day longer), 4-year cycles and
years (at most 3 whole ones: the 4th is one day longer); as in the well-known `days_from_civil`
algorithm the year starts on March 1, so that the leap day is the last day of the year and the
month is a linear function of the day of the year. `Proofs/DateLemmas.lean` proves the two round
trips and the ranges (`civilOfDays_daysOfCivil`, `daysOfCivil_civilOfDays`, `civil_ranges`).

## What Go does outside the model

`time.Unix(sec, 0)` adds `unixToInternal` to `sec` in `int64` and the calendar routines work on
`uint64` seconds since the year −292277022399: both wrap for instants within about 2⁶³ − 10¹¹
seconds of the ends of the `int64` range. `timeModelled u` (|u| ≤ 2⁶²) is the range in which no
intermediate of Go's computation wraps; outside it the model answers `unmodelled`.
-/

namespace Cal

/-- the instants for which Go's `int64`/`uint64` arithmetic does not wrap: |u| ≤ 2⁶² -/
def timeModelled (u : Int) : Bool := u.natAbs ≤ 2 ^ 62

def isLeap (y : Int) : Bool := y % 4 == 0 && (y % 100 != 0 || y % 400 == 0)

/-- `time.daysIn(m, year)` -/
def daysInMonth (y : Int) (m : Nat) : Nat :=
  if m == 2 then (if isLeap y then 29 else 28)
  else if m == 4 || m == 6 || m == 9 || m == 11 then 30 else 31

/-! ## one 400-year era, years beginning on March 1 -/

/-- day of the era (0 = March 1 of a year ≡ 0 mod 400) ↦ (year of the era, day of that year) -/
def yoeDoy (doe : Nat) : Nat × Nat :=
  let c := min (doe / 36524) 3            -- whole centuries; the 4th has 36525 days
  let doc := doe - 36524 * c
  let q := doc / 1461                     -- whole 4-year cycles
  let doq := doc - 1461 * q
  let a := min (doq / 365) 3              -- whole years; the 4th has 366 days
  (100 * c + 4 * q + a, doq - 365 * a)

/-- days of the era before March 1 of its year `yoe` -/
def daysBeforeYoe (yoe : Nat) : Nat := 365 * yoe + yoe / 4 - yoe / 100

/-- (month 1..12, day 1..31) of the day `doy` (0 = March 1) of a March-based year -/
def monthDay (doy : Nat) : Nat × Nat :=
  let mp := (5 * doy + 2) / 153
  (if mp < 10 then mp + 3 else mp - 9, doy - (153 * mp + 2) / 5 + 1)

/-- day of the March-based year of month `m`, day `d` -/
def doyOfMonthDay (m d : Nat) : Nat := (153 * (if m > 2 then m - 3 else m + 9) + 2) / 5 + d - 1

/-! ## days since 1970-01-01 ↔ (year, month, day) -/

/-- 719468 days from 0000-03-01 to 1970-01-01 -/
def civilOfDays (days : Int) : Int × Nat × Nat :=
  let z := days + 719468
  let era := z / 146097
  let doe := (z % 146097).toNat
  let yd := yoeDoy doe
  let md := monthDay yd.2
  ((yd.1 : Int) + era * 400 + (if md.1 ≤ 2 then 1 else 0), md.1, md.2)

def daysOfCivil (y : Int) (m d : Nat) : Int :=
  let y' := y - (if m ≤ 2 then 1 else 0)
  let era := y' / 400
  let yoe := (y' % 400).toNat
  era * 146097 + ((daysBeforeYoe yoe + doyOfMonthDay m d : Nat) : Int) - 719468

/-- `Weekday` (0 = Sunday) of a day number; 1970-01-01 was a Thursday -/
def weekdayOfDays (days : Int) : Nat := ((days + 4) % 7).toNat

/-! ## broken-down time -/

structure Broken where
  unix : Int
  /-- days since 1970-01-01 (floor) -/
  days : Int
  year : Int
  month : Nat      -- 1..12
  day : Nat        -- 1..31
  hour : Nat
  min : Nat
  sec : Nat
  /-- `Weekday()`: 0 = Sunday -/
  wday : Nat
  /-- `YearDay()`: 1..366 -/
  yday : Nat
  deriving Repr, DecidableEq

/-- second of the day, 0 ≤ · < 86400 -/
def secOfDay (u : Int) : Nat := (u % 86400).toNat

def broken (u : Int) : Broken :=
  let days := u / 86400
  let s := secOfDay u
  let ymd := civilOfDays days
  { unix := u, days := days, year := ymd.1, month := ymd.2.1, day := ymd.2.2,
    hour := s / 3600, min := s / 60 % 60, sec := s % 60,
    wday := weekdayOfDays days,
    yday := (days - daysOfCivil ymd.1 1 1).toNat + 1 }

/-- `Time.ISOWeek()`: the year and week (1..53) of the Thursday of the Monday-based week -/
def isoWeek (days : Int) : Int × Nat :=
  let wd := weekdayOfDays days
  let thursday := days + 3 - ((wd + 6) % 7 : Nat)        -- Monday ↦ +3, …, Sunday ↦ −3
  let y := (civilOfDays thursday).1
  (y, (thursday - daysOfCivil y 1 1).toNat / 7 + 1)

/-- `Weekday.String()` -/
def weekdayName : Nat → Bytes
  | 0 => [83, 117, 110, 100, 97, 121]
  | 1 => [77, 111, 110, 100, 97, 121]
  | 2 => [84, 117, 101, 115, 100, 97, 121]
  | 3 => [87, 101, 100, 110, 101, 115, 100, 97, 121]
  | 4 => [84, 104, 117, 114, 115, 100, 97, 121]
  | 5 => [70, 114, 105, 100, 97, 121]
  | _ => [83, 97, 116, 117, 114, 100, 97, 121]

/-- `Month.String()` (the model only asks for 1..12) -/
def monthName : Nat → Bytes
  | 1 => [74, 97, 110, 117, 97, 114, 121]
  | 2 => [70, 101, 98, 114, 117, 97, 114, 121]
  | 3 => [77, 97, 114, 99, 104]
  | 4 => [65, 112, 114, 105, 108]
  | 5 => [77, 97, 121]
  | 6 => [74, 117, 110, 101]
  | 7 => [74, 117, 108, 121]
  | 8 => [65, 117, 103, 117, 115, 116]
  | 9 => [83, 101, 112, 116, 101, 109, 98, 101, 114]
  | 10 => [79, 99, 116, 111, 98, 101, 114]
  | 11 => [78, 111, 118, 101, 109, 98, 101, 114]
  | _ => [68, 101, 99, 101, 109, 98, 101, 114]

/-! ## `values.ParseDate` on the layouts that are plain digits

`ParseDate(s)` tries `time.ParseInLocation(layout, s, time.Local)` over 25 layouts in order and
returns the first success (`"now"` reads the clock). The model knows five shapes, each of fixed
length with ASCII digits `d` in fixed places:

| shape | layout that accepts it | zone |
|---|---|---|
| `dddd-dd-dd`           | `2006-01-02`          | `time.Local` |
| `dddd-dd-dd dd:dd:dd`  | `2006-01-02 15:04:05` | `time.Local` |
| `dddd-dd-dd dd:dd`     | `2006-01-02 15:04`    | `time.Local` |
| `ddddddddTddddddZ`     | `20060102T150405Z`    | `time.Local` (the `Z` is literal text of the layout) |
| `dddd-dd-ddTdd:dd:ddZ` | `time.RFC3339`, which stands before `2006-01-02T15:04:05Z` | UTC |

No other layout accepts a string of these shapes (the earlier ones start with a weekday or month
name, a two-digit day followed by a blank, or need more text; the later ones fail on the first
separator), and a string of one of these shapes whose fields are out of range (month 0 or 13, day
beyond the month's length, hour 24, minute or second 60) is rejected by every layout: `TypeError`.
The harness pins `time.Local` to UTC (`harness/stream_filter_date.go`; `check` also runs it under
`TZ=UTC`), so all five give UTC times.

**Strings no layout can accept** (`noLayoutStarts`). Every layout begins with a field, not with literal
text: a weekday name (`Mon`, `Monday`: 10 layouts), a month name (`Jan`, `January`: 4), a two-digit day
followed by a blank (`02 Jan …`: 4) or a four-digit year followed by `-` or by the month digits
(`2006-…`, `20060102T…`: 10). `time.Parse` compares names ignoring ASCII case, wants exactly two
digits for `02` and exactly four for `2006`. So a string is rejected by all of them — `TypeError` —
when it is empty, or starts with a byte that is not a digit and its first three bytes are not a
weekday or month abbreviation in any case, or starts with a digit but neither with two digits and a
blank nor with four digits and then `-` or a digit. Everything else (the other twenty layouts, and
`now`, which reads the clock) is outside the model.
-/

inductive Parsed where
  | time (u : Int)
  | reject           -- no layout accepts the string: `TypeError`
  | unknown          -- outside the model
  deriving Repr, DecidableEq

def digit? (b : UInt8) : Option Nat := if isDigit b then some (b.toNat - 48) else none

/-- exactly two ASCII digits -/
def num2 (a b : UInt8) : Option Nat :=
  match digit? a, digit? b with
  | some x, some y => some (10 * x + y)
  | _, _ => none

def num4 (a b c d : UInt8) : Option Nat :=
  match num2 a b, num2 c d with
  | some x, some y => some (100 * x + y)
  | _, _ => none

/-- the instant of a civil date and time in UTC, when every field is in range -/
def instant (y mo d h mi s : Nat) : Parsed :=
  if 1 ≤ mo && mo ≤ 12 && 1 ≤ d && d ≤ daysInMonth (y : Int) mo && h < 24 && mi < 60 && s < 60 then
    .time (daysOfCivil (y : Int) mo d * 86400 + (h * 3600 + mi * 60 + s : Nat))
  else .reject

def ofFields (y mo d h mi s : Option Nat) : Parsed :=
  match y, mo, d, h, mi, s with
  | some y, some mo, some d, some h, some mi, some s => instant y mo d h mi s
  | _, _, _, _, _, _ => .unknown

/-- the three-letter names `time.Parse` looks for at the start of a value, in lower case -/
def nameStarts : List Bytes :=
  [[115, 117, 110], [109, 111, 110], [116, 117, 101], [119, 101, 100], [116, 104, 117], [102, 114, 105], [115, 97, 116],
   [106, 97, 110], [102, 101, 98], [109, 97, 114], [97, 112, 114], [109, 97, 121], [106, 117, 110], [106, 117, 108],
   [97, 117, 103], [115, 101, 112], [111, 99, 116], [110, 111, 118], [100, 101, 99]]

/-- no layout of `ParseDate` can read even its first field from `s` -/
def noLayoutStarts : Bytes → Bool
  | [] => true
  | a :: rest =>
    if isDigit a then
      match rest with
      | b :: c :: r =>
        if !isDigit b then true
        else if c == 32 then false                          -- `02 Jan …`
        else
          match r with
          | d :: e :: _ => !(isDigit c && isDigit d && (e == 45 || isDigit e))   -- `2006-…`, `20060102T…`
          | _ => true
      | _ => true
    else
      match rest with
      | b :: c :: _ => !(nameStarts.contains [a ||| 32, b ||| 32, c ||| 32])
      | _ => true

/-- `now` -/
def nowB : Bytes := [110, 111, 119]

def parseDate : Bytes → Parsed
  -- dddd-dd-dd
  | [y1, y2, y3, y4, 45, m1, m2, 45, d1, d2] =>
    ofFields (num4 y1 y2 y3 y4) (num2 m1 m2) (num2 d1 d2) (some 0) (some 0) (some 0)
  -- dddd-dd-dd dd:dd
  | [y1, y2, y3, y4, 45, m1, m2, 45, d1, d2, 32, h1, h2, 58, i1, i2] =>
    ofFields (num4 y1 y2 y3 y4) (num2 m1 m2) (num2 d1 d2) (num2 h1 h2) (num2 i1 i2) (some 0)
  -- ddddddddTddddddZ
  | [y1, y2, y3, y4, m1, m2, d1, d2, 84, h1, h2, i1, i2, s1, s2, 90] =>
    ofFields (num4 y1 y2 y3 y4) (num2 m1 m2) (num2 d1 d2) (num2 h1 h2) (num2 i1 i2) (num2 s1 s2)
  -- dddd-dd-dd dd:dd:dd
  | [y1, y2, y3, y4, 45, m1, m2, 45, d1, d2, 32, h1, h2, 58, i1, i2, 58, s1, s2] =>
    ofFields (num4 y1 y2 y3 y4) (num2 m1 m2) (num2 d1 d2) (num2 h1 h2) (num2 i1 i2) (num2 s1 s2)
  -- dddd-dd-ddTdd:dd:ddZ
  | [y1, y2, y3, y4, 45, m1, m2, 45, d1, d2, 84, h1, h2, 58, i1, i2, 58, s1, s2, 90] =>
    ofFields (num4 y1 y2 y3 y4) (num2 m1 m2) (num2 d1 d2) (num2 h1 h2) (num2 i1 i2) (num2 s1 s2)
  | s => if s != nowB && noLayoutStarts s then .reject else .unknown

end Cal
