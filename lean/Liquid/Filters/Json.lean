import Liquid.Call
import Liquid.Utf8
/-!
# The value filters `json`, `inspect`, `type` (`filters/standard_filters.go`)

```go
fd.AddFilter("json",    func(a any) any        { result, _ := json.Marshal(a); return result })
fd.AddFilter("inspect", func(value any) string { s, err := json.Marshal(value); if err != nil { return fmt.Sprintf("%#v", value) }; return string(s) })
fd.AddFilter("type",    func(value any) string { return fmt.Sprintf("%T", value) })
```

The parameter type is `any`: `values.Call` hands the body `ToLiquid(receiver)` (one level; a `nil`
receiver is the zero `any`, a drop yielding nil is a `TypeError` — `convAny`). Everything below the
top level is marshalled as the Go value it is: a drop *inside* a container is the harness's struct
`dropV{v any}` with one unexported field, i.e. `{}` — not its `ToLiquid` value.

## `encoding/json` (`marshal`), Go 1.23, `escapeHTML = true`

* `nil` → `null`; booleans; integers of every width in decimal;
* floats (`floatEncoder`): `strconv` shortest digits, format `'f'` unless `|x| < 1e-6` or
  `|x| ≥ 1e21` (the constants rounded to the float's own format: `float32` compares as `float32`),
  then `'e'` with `e-0d` rewritten to `e-d` (the clean-up does not touch positive exponents, so `1e+21`);
* strings (`appendString`): `"`/`\` escaped with a backslash, `\b \f \n \r \t`, the other bytes below
  `0x20` and `<`, `>`, `&` as `\u00XX`; an invalid UTF-8 byte as the six ASCII characters `�`;
  U+2028/U+2029 as ` `/` `; every other rune copied;
* `[]byte` (also a `[]uint8` typed slice): standard base64 with padding, in quotes;
* slices and arrays: `[a,b]`; maps: an object with the keys *sorted* bytewise, string keys as they
  are, integer keys in decimal (sorted as strings: `"-1" < "10" < "9"`); a map type with any other
  key type (`any`, `bool`, floats, arrays) is an `UnsupportedTypeError` as soon as a value of the
  type is met, nil or not; `tags.IterationKeyedMap` and `tags.cycleCounters` are string-keyed maps;
* `yaml.MapSlice` = `[]MapItem{Key, Value any}`: `[{"Key":k,"Value":v},…]`;
* structs: the harness realises `.struct` as a `reflect.StructOf` type whose fields are named
  `F0, F1, …` (type `any`, tag `liquid:"name"`, no `json` tag): `{"F0":v0,"F1":v1}`;
* `values.Range` and `dropV` have unexported fields only: `{}`;
* pointers are dereferenced, a nil pointer is `null`;
* `time.Time` (`MarshalJSON`): `"YYYY-MM-DDTHH:MM:SSZ"` (the harness builds UTC times with whole
  seconds); a year outside 0..9999 is an error;
* a `nil` in a slot of a typed container is the zero value of the slot's type (`zeroJson`).

An error makes `json` return a nil `[]byte`, which `ApplyFilter` turns into the empty string;
`inspect` then prints `%#v`, which is not modelled (`unmodelled`).

**Nil slices.** `GoVal` does not distinguish a nil `[]any` from an empty one, the codec cannot
express a nil slice, and every other consumer treats them alike — but `json.Marshal` prints `null`
for one and `[]` for the other, and `compact`, `map` and `uniq` return a nil slice when their result
is empty (`var result []any` + `append`). Hence `json`/`inspect` of an empty `[]any` *at the top
level* is `unmodelled`. Nested values are never results of filters (no filter nests its receiver),
so an empty `[]any` inside a container comes from the bindings and is non-nil: `[]`.

## `%T` (`typeName`)

The Go type name of the dynamic type. For `.struct` and `.drop` these are the names of the Go types
the harness realises them as (`harness/codec.go`): the `reflect.StructOf` type
`struct { F0 interface {} "liquid:\"a\""; F1 … }` (the tag quoted by `strconv.Quote`; modelled for ASCII
field names) and `main.dropV` — like the field names `F0, F1` in the JSON text they describe the test
universe, not a property of user types. The pointee type of a nil pointer is not part of the value:
`unmodelled`.
-/

namespace JsonF

abbrev R := Res Cause

def bn (s : String) : Bytes := s.toUTF8.toList

def badArgs : Res Cause (Except Cause GoVal) := .panic "filter called with arguments of the wrong type"

/-- the error of `json.Marshal` (`UnsupportedTypeError`, `MarshalerError`); its identity is never observed -/
def jsonErr : Cause := .other "json"

/-! ## strings -/

/-- lower-case hex digit -/
def hexLow (n : Nat) : UInt8 := if n < 10 then (48 + n).toUInt8 else (87 + n).toUInt8

/-- `\u00XX` -/
def u00 (b : UInt8) : Bytes := [92, 117, 48, 48, hexLow (b.toNat / 16), hexLow (b.toNat % 16)]

/-- `appendString` on one byte below `utf8.RuneSelf` (`escapeHTML = true`) -/
def escByte (b : UInt8) : Bytes :=
  if b == 34 || b == 92 then [92, b]
  else if b == 8 then [92, 98]
  else if b == 12 then [92, 102]
  else if b == 10 then [92, 110]
  else if b == 13 then [92, 114]
  else if b == 9 then [92, 116]
  else if b < 32 || b == 60 || b == 62 || b == 38 then u00 b
  else [b]

/-- the body of `appendString(dst, s, true)` (between the quotes); fuel = length -/
def escAux : Nat → Bytes → Bytes
  | 0, _ => []
  | _, [] => []
  | n+1, b :: rest =>
    if b < 0x80 then escByte b ++ escAux n rest
    else
      let (r, w) := decodeRune (b :: rest)
      if w ≤ 1 then [92, 117, 102, 102, 102, 100] ++ escAux n rest          -- RuneError, size 1
      else if r == 0x2028 then [92, 117, 50, 48, 50, 56] ++ escAux n ((b :: rest).drop w)
      else if r == 0x2029 then [92, 117, 50, 48, 50, 57] ++ escAux n ((b :: rest).drop w)
      else (b :: rest).take w ++ escAux n ((b :: rest).drop w)

def escBody (s : Bytes) : Bytes := escAux s.length s

/-- a JSON string literal -/
def jsonString (s : Bytes) : Bytes := 34 :: (escBody s ++ [34])

/-! ## base64 (`base64.StdEncoding`) -/

def b64Char (n : Nat) : UInt8 :=
  if n < 26 then (65 + n).toUInt8
  else if n < 52 then (71 + n).toUInt8        -- 'a' - 26
  else if n < 62 then (n - 4).toUInt8         -- '0' - 52
  else if n == 62 then 43 else 47

def base64 : Bytes → Bytes
  | a :: b :: c :: rest =>
    let n := a.toNat * 65536 + b.toNat * 256 + c.toNat
    b64Char (n / 262144) :: b64Char (n / 4096 % 64) :: b64Char (n / 64 % 64) :: b64Char (n % 64) :: base64 rest
  | [a, b] =>
    let n := a.toNat * 65536 + b.toNat * 256
    [b64Char (n / 262144), b64Char (n / 4096 % 64), b64Char (n / 64 % 64), 61]
  | [a] =>
    let n := a.toNat * 65536
    [b64Char (n / 262144), b64Char (n / 4096 % 64), 61, 61]
  | [] => []

/-! ## floats -/

/-- the clean-up of `floatEncoder.encode`: `e-0d` becomes `e-d` -/
def cleanExp (b : Bytes) : Bytes :=
  match b.reverse with
  | d :: 48 :: 45 :: 101 :: r => (d :: 45 :: 101 :: r).reverse
  | _ => b

def ratAbs (q : Rat) : Rat := if q < 0 then -q else q

/-- `floatEncoder.encode` for a float of kind `k` holding exactly `q` -/
def jsonFloat (k : FltKind) (q : Rat) : R Bytes :=
  match shortestDigits k.rnd k.maxDigits q with
  | none => .unmodelled "float: not a value of the format"
  | some (_, [], _) => .ok [48]
  | some (neg, ds, dp) =>
    match k.rnd (mkRat 1 1000000), k.rnd ((10 ^ 21 : Nat) : Rat) with
    | some lo, some hi =>
      let a := ratAbs q
      let body := if a < lo || a ≥ hi then cleanExp (fmtE ds (dp - 1)) else fmtF ds dp
      .ok (if neg then 45 :: body else body)
    | _, _ => .unmodelled "float: threshold constants"

/-! ## `time.Time.MarshalJSON` for a UTC time with whole seconds -/

def pad2 (n : Nat) : Bytes := [(48 + n / 10 % 10).toUInt8, (48 + n % 10).toUInt8]
def pad4 (n : Nat) : Bytes := pad2 (n / 100) ++ pad2 (n % 100)

/-- proleptic Gregorian date of a day number counted from 1970-01-01 (year, month, day): `Liquid/Time.lean` -/
def civilOfDays (days : Int) : Int × Nat × Nat := Cal.civilOfDays days

def jsonTime (u : Int) : R Bytes :=
  if u < -62167219200 || u > 253402300799 then
    if u.natAbs < 2 ^ 55 then .err jsonErr          -- "year outside of range [0,9999]"
    else .unmodelled "time.Time: seconds outside the range of the calendar computation"
  else
    let (y, m, d) := civilOfDays (u / 86400)
    let s := (u % 86400).toNat
    .ok (34 :: (pad4 y.toNat ++ 45 :: pad2 m ++ 45 :: pad2 d ++ 84 :: pad2 (s / 3600) ++ 58 :: pad2 (s / 60 % 60) ++
          58 :: pad2 (s % 60) ++ [90, 34]))

/-! ## containers -/

def joinComma : List Bytes → Bytes
  | [] => []
  | [a] => a
  | a :: rest => a ++ 44 :: joinComma rest

def nullB : Bytes := [110, 117, 108, 108]
def emptyObj : Bytes := [123, 125]

/-- the order `mapEncoder.encode` sorts the resolved key strings in (`strings.Compare`) -/
def entryLe (a b : Bytes × Bytes) : Bool := decide (a.1 ≤ b.1)

/-- one member of an object -/
def member (e : Bytes × Bytes) : Bytes := jsonString e.1 ++ 58 :: e.2

/-- `{"k":v,…}` for the members in the order given -/
def objectOf (es : List (Bytes × Bytes)) : Bytes := 123 :: (joinComma (es.map member) ++ [125])

/-- a Go map's JSON: the (key text, value JSON) entries sorted by key text -/
def jsonObject (es : List (Bytes × Bytes)) : Bytes := objectOf (es.mergeSort entryLe)

def arrayOf (bs : List Bytes) : Bytes := 91 :: (joinComma bs ++ [93])

/-- key kinds `newMapEncoder` accepts (strings and integers; no modelled key type is a `TextMarshaler`) -/
def keySupported : Ty → Bool
  | .str => true
  | .int _ => true
  | _ => false

/-- `resolveKeyName` -/
def keyText : GoVal → Option Bytes
  | .str s => some s
  | .int _ n => some (intDec n)
  | _ => none

/-- JSON of the zero value of a static type: what a `nil` in a slot of that type is in Go -/
def zeroJson : Ty → R Bytes
  | .any => .ok nullB
  | .bool => .ok [102, 97, 108, 115, 101]
  | .int _ => .ok [48]
  | .flt _ => .ok [48]
  | .str => .ok [34, 34]
  | .bytes => .ok nullB
  | .slice _ => .ok nullB
  | .map k _ => if keySupported k then .ok nullB else .err jsonErr
  | .arr _ => .unmodelled "json: zero value of an array type of unknown length"
  | .priv => .ok [48]

/-- the bytes of a `[]uint8` written as a typed slice -/
def byteVals : List GoVal → Option Bytes
  | [] => some []
  | .int .u8 n :: xs => (byteVals xs).map fun r => n.toNat.toUInt8 :: r
  | _ => none

/-- `{"F0":v0,"F1":v1,…}`: the field names of the harness's `reflect.StructOf` types -/
def structMembers : Nat → List Bytes → List (Bytes × Bytes)
  | _, [] => []
  | i, v :: vs => (70 :: natDec i, v) :: structMembers (i + 1) vs

def keyB : Bytes := [75, 101, 121]
def valueB : Bytes := [86, 97, 108, 117, 101]

mutual
/-- `json.Marshal` below the top level -/
def marshal : GoVal → R Bytes
  | .nil => .ok nullB
  | .bool true => .ok [116, 114, 117, 101]
  | .bool false => .ok [102, 97, 108, 115, 101]
  | .int _ n => .ok (intDec n)
  | .flt k q => jsonFloat k q
  | .str s => .ok (jsonString s)
  | .bytes s => .ok (34 :: (base64 s ++ [34]))
  | .slice e xs =>
    if e == .int .u8 then
      match byteVals xs with
      | some s => .ok (34 :: (base64 s ++ [34]))
      | none => .unmodelled "json: []uint8 with an element that is not a uint8"
    else (marshalElems e xs).bind fun bs => .ok (arrayOf bs)
  | .array e xs => (marshalElems e xs).bind fun bs => .ok (arrayOf bs)
  | .map k v kvs =>
    if keySupported k then (marshalKVs v kvs).bind fun es => .ok (jsonObject es)
    else .err jsonErr
  | .mapSlice kvs => (marshalItems kvs).bind fun bs => .ok (arrayOf bs)
  | .keyedMap kvs => (marshalNamed kvs).bind fun es => .ok (jsonObject es)
  | .range _ _ => .ok emptyObj
  | .ptr v => marshal v
  | .nilPtr => .ok nullB
  | .drop _ => .ok emptyObj
  | .struct fs => (marshalNamed fs).bind fun es => .ok (objectOf (structMembers 0 (es.map (·.2))))
  | .time u => jsonTime u
/-- the elements of a container whose static element type is `e` -/
def marshalElems (e : Ty) : List GoVal → R (List Bytes)
  | [] => .ok []
  | .nil :: xs => (zeroJson e).bind fun b => (marshalElems e xs).bind fun bs => .ok (b :: bs)
  | x :: xs => (marshal x).bind fun b => (marshalElems e xs).bind fun bs => .ok (b :: bs)
/-- the entries of a map with value type `vt`: key text and value JSON -/
def marshalKVs (vt : Ty) : List (GoVal × GoVal) → R (List (Bytes × Bytes))
  | [] => .ok []
  | (k, .nil) :: r =>
    match keyText k with
    | none => .unmodelled "json: map key that is neither a string nor an integer"
    | some kt => (zeroJson vt).bind fun b => (marshalKVs vt r).bind fun es => .ok ((kt, b) :: es)
  | (k, v) :: r =>
    match keyText k with
    | none => .unmodelled "json: map key that is neither a string nor an integer"
    | some kt => (marshal v).bind fun b => (marshalKVs vt r).bind fun es => .ok ((kt, b) :: es)
/-- `yaml.MapItem`s -/
def marshalItems : List (GoVal × GoVal) → R (List Bytes)
  | [] => .ok []
  | (k, v) :: r => (marshal k).bind fun kb => (marshal v).bind fun vb => (marshalItems r).bind fun bs =>
      .ok (objectOf [(keyB, kb), (valueB, vb)] :: bs)
/-- named values (`any` slots): keyed-map entries, struct fields -/
def marshalNamed : List (Bytes × GoVal) → R (List (Bytes × Bytes))
  | [] => .ok []
  | (k, v) :: r => (marshal v).bind fun b => (marshalNamed r).bind fun es => .ok ((k, b) :: es)
end

/-- `json.Marshal(a)` for the argument `values.Call` hands to the filter -/
def marshalTop : GoVal → R Bytes
  | .slice .any [] => .unmodelled "json of an empty []any: nil (null) and empty ([]) are not distinguished"
  | v => marshal v

/-! ## `%T` -/

def intKindName : IntKind → String
  | .int => "int" | .i8 => "int8" | .i16 => "int16" | .i32 => "int32" | .i64 => "int64"
  | .uint => "uint" | .u8 => "uint8" | .u16 => "uint16" | .u32 => "uint32" | .u64 => "uint64"

def fltKindName : FltKind → String
  | .f32 => "float32" | .f64 => "float64"

/-- the name `reflect` prints for a static type; `none` when the model does not determine it
    (an array type without its length, the private counter slot) -/
def tyName : Ty → Option Bytes
  | .any => some (bn "interface {}")
  | .bool => some (bn "bool")
  | .int k => some (bn (intKindName k))
  | .flt k => some (bn (fltKindName k))
  | .str => some (bn "string")
  | .bytes => some (bn "[]uint8")
  | .slice e => (tyName e).map fun n => bn "[]" ++ n
  | .arr _ => none
  | .map k v => match tyName k, tyName v with
    | some a, some b => some (bn "map[" ++ a ++ 93 :: b)
    | _, _ => none
  | .priv => none

def optName (what : String) : Option Bytes → R Bytes
  | some b => .ok b
  | none => .unmodelled what

/-- `strconv.Quote` of the struct tag `liquid:"<name>"` for an ASCII name (`none`: a byte ≥ 0x80, whose
    quoting depends on `unicode.IsPrint`) -/
def quoteTagBody : Bytes → Option Bytes
  | [] => some []
  | b :: r =>
    if b ≥ 0x80 then none else
    (quoteTagBody r).map fun q =>
      (if b == 34 || b == 92 then [92, b]
       else if b == 7 then [92, 97] else if b == 8 then [92, 98] else if b == 12 then [92, 102]
       else if b == 10 then [92, 110] else if b == 13 then [92, 114] else if b == 9 then [92, 116]
       else if b == 11 then [92, 118]
       else if b < 32 || b == 127 then [92, 120, hexLow (b.toNat / 16), hexLow (b.toNat % 16)]
       else [b]) ++ q

/-- the fields of the `reflect.StructOf` types the harness realises `.struct` as:
    `F<i> interface {} "liquid:\"<name>\""`, joined with `; ` -/
def structFieldNames : Nat → List (Bytes × GoVal) → Option (List Bytes)
  | _, [] => some []
  | i, (name, _) :: r =>
    match quoteTagBody name, structFieldNames (i + 1) r with
    | some q, some rest =>
      some ((70 :: natDec i ++ bn " interface {} \"liquid:\\\"" ++ q ++ bn "\\\"\"") :: rest)
    | _, _ => none

def joinSemi : List Bytes → Bytes
  | [] => []
  | [a] => a
  | a :: rest => a ++ 59 :: 32 :: joinSemi rest

/-- `%T` of the struct type the harness builds for `.struct fs` -/
def structTypeName (fs : List (Bytes × GoVal)) : Option Bytes :=
  match fs with
  | [] => some (bn "struct {}")
  | _ => (structFieldNames 0 fs).map fun ns => bn "struct { " ++ joinSemi ns ++ bn " }"

/-- `fmt.Sprintf("%T", v)` -/
def typeName : GoVal → R Bytes
  | .nil => .ok (bn "<nil>")
  | .bool _ => .ok (bn "bool")
  | .int k _ => .ok (bn (intKindName k))
  | .flt k _ => .ok (bn (fltKindName k))
  | .str _ => .ok (bn "string")
  | .bytes _ => .ok (bn "[]uint8")
  | .slice e _ => optName "%T: element type not determined" ((tyName e).map fun n => bn "[]" ++ n)
  | .array e xs => optName "%T: element type not determined" ((tyName e).map fun n => 91 :: (natDec xs.length ++ 93 :: n))
  | .map .str .priv _ => .ok (bn "tags.cycleCounters")
  | .map k v _ => optName "%T: key or element type not determined" (tyName (.map k v))
  | .mapSlice _ => .ok (bn "yaml.MapSlice")
  | .keyedMap _ => .ok (bn "tags.IterationKeyedMap")
  | .range _ _ => .ok (bn "values.Range")
  | .ptr .nilPtr => .unmodelled "%T: the pointee type of a nil pointer is not part of the value"
  | .ptr .nil => .ok (bn "*interface {}")
  | .ptr v => (typeName v).bind fun n => .ok (42 :: n)
  | .nilPtr => .unmodelled "%T: the pointee type of a nil pointer is not part of the value"
  | .drop _ => .ok (bn "main.dropV")          -- the harness's drop type (a drop yielding a drop, after `ToLiquid`)
  | .struct fs => optName "%T: struct tag with a non-ASCII field name" (structTypeName fs)
  | .time _ => .ok (bn "time.Time")

/-! ## the filter bodies -/

/-- `json`: the marshalled bytes; on an error the nil `[]byte` (`result, _ := json.Marshal(a)`) -/
def json : FilterImpl
  | [.val v] =>
    match marshalTop v with
    | .ok b => ret (.bytes b)
    | .err _ => ret (.bytes [])
    | .panic w => .panic w
    | .unmodelled w => .unmodelled w
  | _ => badArgs

/-- `inspect`: the marshalled text; on an error `fmt.Sprintf("%#v", value)`, which is not modelled -/
def inspect : FilterImpl
  | [.val v] =>
    match marshalTop v with
    | .ok b => ret (.str b)
    | .err _ => .unmodelled "inspect: %#v of a value json.Marshal rejects"
    | .panic w => .panic w
    | .unmodelled w => .unmodelled w
  | _ => badArgs

/-- `type` -/
def typeF : FilterImpl
  | [.val v] => (typeName v).bind fun n => ret (.str n)
  | _ => badArgs

/-- the implementations this file contributes to the filter table -/
def impls : List (Bytes × FilterImpl) := [(bn "json", json), (bn "inspect", inspect), (bn "type", typeF)]

end JsonF
