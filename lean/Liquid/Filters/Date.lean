import Liquid.Call
/-!
# The filter `date` (`filters/standard_filters.go`) and `tuesday.Strftime`

```go
fd.AddFilter("date", func(t time.Time, format func(string) string) (string, error) {
    f := format("%a, %b %d, %y")
    return tuesday.Strftime(f, t)
})
```

`values.Call` hands the body a `time.Time` (a time passes, a string goes through `ParseDate`, a
`nil` or absent receiver is the zero time, January 1 of the year 1; everything else is a
`TypeError`: `convert · .time` in `Liquid/Convert.lean`) and the format as a default function.
The error result of `Strftime` is always nil.

## `tuesday.Strftime` (`github.com/osteele/tuesday@v1.0.3/strftime.go`), for a UTC time with whole seconds

```go
var re = regexp.MustCompile(`%([-_^#0]|:{1,3})?(\d+)?[EO]?([a-zA-Z\+nt%])`)
return re.ReplaceAllStringFunc(format, func(directive string) string { … })
```

**The regexp.** Every match starts at a `%`; matches do not overlap and are found left to right;
text between them is copied. All characters of the pattern are ASCII, so invalid UTF-8 in the
format is copied and never part of a match. At a `%` the leftmost-first match is unique up to the
choice the priorities make (`matchDirective`):

* flag: one of `-_^#0`, or one to three colons. A fourth colon cannot be matched by the rest of the
  pattern, and giving a colon back leaves a colon, which nothing matches either: no match here. A `0`
  could also be the first digit of the width; the alternatives accept the same texts and the
  pattern prefers the flag. After `-_^#` the alternative "no flag" would need that character to be a
  digit, `E`, `O` or a conversion: it is not;
* width: all the digits that follow (a shorter run leaves a digit, which is not a conversion);
* `E`/`O` is skipped when a conversion character follows it, otherwise it is the conversion itself;
* conversion: a letter, `+` or `%`.

**A directive** (`directive`): `convert` yields a string or a number. A string is returned through
`applyFlags` — the width is *ignored* (except by `%N`). A number is formatted with `fmt`: pad
character and width default to `0`/2, per conversion to the table `defaultPadding`, the width of the
directive replaces the default, the flag `-` sets the width to 0, `_` pads with blanks, `0` with
zeros; then `fmt.Sprintf("%<w>d" | "%0<w>d", n)` (`fmtNum`: blank padding to `w` columns; zero padding to
`w` columns *including* a minus sign; `w = 0` prints the plain number), then `applyFlags`: `^` upper
case, `#` swap case (lower when all letters are upper case, else upper).

**Widths.** `strconv.Atoi` of the width; from 10 000 010 on `fmt` refuses the width and prints
`%!(NOVERB)%!(EXTRA …)`, and widths in the millions produce megabytes. The model answers widths up
to `maxWidth` = 1024 and is `unmodelled` beyond (only where the width is used: numbers and `%N`).

**Conversions** (all of `convert`; `t` in UTC): `Y y C m B b h d e j H k I l M S L N P p z Z A a u w G
g V U W s Q n t % c D x F v r R T X +`; every other letter `x` prints `%x`. `L`/`N` print zeros (whole
seconds), `z` prints `+0000` (`:` `+00:00`, `::` `+00:00:00`, `:::` `+00`), `Z` prints `UTC`. Go's `/`
and `%` truncate: `%y`, `%C`, `%g` of a negative year are negative. `%s` is `t.Unix()` and `%Q`
`t.UnixNano() / 1000` with the `int64` product wrapping, both with the default `%02d` (so `5` prints `05`).
-/

namespace DateF

abbrev R := Res Cause

def badArgs : Res Cause (Except Cause GoVal) := .panic "filter called with arguments of the wrong type"

/-- the default format: `%a, %b %d, %y` -/
def defaultFormat : Bytes := [37, 97, 44, 32, 37, 98, 32, 37, 100, 44, 32, 37, 121]

/-- widths the model answers (see above) -/
def maxWidth : Nat := 1024

/-! ## the regexp -/

/-- `[a-zA-Z\+nt%]` -/
def isConv (b : UInt8) : Bool := (97 ≤ b && b ≤ 122) || (65 ≤ b && b ≤ 90) || b == 43 || b == 37

/-- `[-_^#0]` -/
def isFlag (b : UInt8) : Bool := b == 45 || b == 95 || b == 94 || b == 35 || b == 48

structure Directive where
  flags : Bytes
  width : Bytes
  conv : UInt8
  deriving Repr, DecidableEq

/-- `([-_^#0]|:{1,3})?`; `none`: four colons, no match at this `%` -/
def takeFlags : Bytes → Option (Bytes × Bytes)
  | 58 :: 58 :: 58 :: 58 :: _ => none
  | 58 :: 58 :: 58 :: r => some ([58, 58, 58], r)
  | 58 :: 58 :: r => some ([58, 58], r)
  | 58 :: r => some ([58], r)
  | c :: r => if isFlag c then some ([c], r) else some ([], c :: r)
  | [] => some ([], [])

/-- `[EO]?([a-zA-Z\+nt%])` -/
def takeConv : Bytes → Option (UInt8 × Bytes)
  | c :: c2 :: r =>
    if (c == 69 || c == 79) && isConv c2 then some (c2, r)
    else if isConv c then some (c, c2 :: r) else none
  | [c] => if isConv c then some (c, []) else none
  | [] => none

/-- the pattern anchored just after a `%`: the directive and the text after the match -/
def matchDirective (s : Bytes) : Option (Directive × Bytes) :=
  match takeFlags s with
  | none => none
  | some (fl, r) =>
    let (w, r') := spanDigits r
    match takeConv r' with
    | none => none
    | some (c, rest) => some ({ flags := fl, width := w, conv := c }, rest)

/-! ## `fmt` -/

inductive Pad where
  | zero | space
  deriving Repr, DecidableEq

/-- `fmt.Sprintf("%0<w>d", n)` (zero: the sign counts) / `fmt.Sprintf("%<w>d", n)` (space); `w = 0`: plain -/
def fmtNum (pad : Pad) (w : Nat) (n : Int) : Bytes :=
  match pad with
  | .zero =>
    let ds := natDec n.natAbs
    if n < 0 then 45 :: (zeros (w - 1 - ds.length) ++ ds) else zeros (w - ds.length) ++ ds
  | .space =>
    let s := intDec n
    List.replicate (w - s.length) 32 ++ s

def toUpperB (b : UInt8) : UInt8 := if 97 ≤ b && b ≤ 122 then b - 32 else b
def toLowerB (b : UInt8) : UInt8 := if 65 ≤ b && b ≤ 90 then b + 32 else b

/-- `^[[:upper:]]+$` -/
def isUpperWord (s : Bytes) : Bool := !s.isEmpty && s.all fun b => 65 ≤ b && b ≤ 90

/-- `applyFlags` (the strings are ASCII) -/
def applyFlags (flags s : Bytes) : Bytes :=
  if flags == [94] then s.map toUpperB
  else if flags == [35] then (if isUpperWord s then s.map toLowerB else s.map toUpperB)
  else s

/-- the table `defaultPadding`; default `0`/2 -/
def defaultPadding (c : UInt8) : Pad × Nat :=
  if c == 101 then (.space, 2)        -- e
  else if c == 102 then (.zero, 6)    -- f (not a conversion of `convert`)
  else if c == 106 then (.zero, 3)    -- j
  else if c == 107 then (.space, 2)   -- k
  else if c == 76 then (.zero, 3)     -- L
  else if c == 108 then (.space, 2)   -- l
  else if c == 78 then (.zero, 9)     -- N
  else if c == 117 then (.space, 0)   -- u
  else if c == 119 then (.space, 0)   -- w
  else if c == 89 then (.zero, 4)     -- Y
  else (.zero, 2)

def tooWide : String := "strftime: a width above 1024"

/-- the numeric branch of the replacement function -/
def numText (c : UInt8) (flags width : Bytes) (n : Int) : R Bytes :=
  let dp := defaultPadding c
  let w := if width.isEmpty then dp.2 else digitsVal width 0
  let w := if flags == [45] then 0 else w
  let pad := if flags == [95] then Pad.space else if flags == [48] then Pad.zero else dp.1
  if w > maxWidth then .unmodelled tooWide else .ok (fmtNum pad w n)

/-! ## `convert` -/

inductive Val where
  | str (s : Bytes)
  | num (n : Int)
  deriving Repr, DecidableEq

def z2 (n : Nat) : Bytes := fmtNum .zero 2 n
def s2 (n : Nat) : Bytes := fmtNum .space 2 n
def year4 (y : Int) : Bytes := fmtNum .zero 4 y

/-- `Month.String()[:3]`, `Weekday.String()[:3]` -/
def mon3 (t : Cal.Broken) : Bytes := (Cal.monthName t.month).take 3
def day3 (t : Cal.Broken) : Bytes := (Cal.weekdayName t.wday).take 3

def hour12 (t : Cal.Broken) : Nat := (t.hour + 11) % 12 + 1
def amPm (t : Cal.Broken) : Bytes := if t.hour < 12 then [65, 77] else [80, 77]
def amPmLower (t : Cal.Broken) : Bytes := if t.hour < 12 then [97, 109] else [112, 109]

/-- `%02d:%02d:%02d` -/
def clock (t : Cal.Broken) : Bytes := z2 t.hour ++ 58 :: z2 t.min ++ 58 :: z2 t.sec

def utc : Bytes := [85, 84, 67]

/-- tuesday's `convert(t, c, flags, width)` -/
def convertD (t : Cal.Broken) (c : UInt8) (flags width : Bytes) : R Val :=
  -- date
  if c == 89 then .ok (.num t.year)                                    -- Y
  else if c == 121 then .ok (.num (Int.tmod t.year 100))               -- y
  else if c == 67 then .ok (.num (Int.tdiv t.year 100))                -- C
  else if c == 109 then .ok (.num t.month)                             -- m
  else if c == 66 then .ok (.str (Cal.monthName t.month))              -- B
  else if c == 98 || c == 104 then .ok (.str (mon3 t))                 -- b h
  else if c == 100 || c == 101 then .ok (.num t.day)                   -- d e
  else if c == 106 then .ok (.num t.yday)                              -- j
  -- time
  else if c == 72 || c == 107 then .ok (.num t.hour)                   -- H k
  else if c == 73 || c == 108 then .ok (.num (hour12 t))               -- I l
  else if c == 77 then .ok (.num t.min)                                -- M
  else if c == 83 then .ok (.num t.sec)                                -- S
  else if c == 76 then .ok (.num 0)                                    -- L: Nanosecond() / 1e6
  else if c == 78 then                                                 -- N
    if width.isEmpty then .ok (.num 0)
    else
      let w := digitsVal width 0
      -- w ≤ 9: `fmt.Sprintf("%09d", ns)[:w]`; beyond: `"%09d%0<w-9>d"` of (ns, 0)
      if w > maxWidth then .unmodelled tooWide else .ok (.str (zeros w))
  else if c == 80 then .ok (.str (amPmLower t))                        -- P
  else if c == 112 then .ok (.str (amPm t))                            -- p
  -- time zone: UTC, offset 0
  else if c == 122 then                                                -- z
    .ok (.str (
      if flags == [58, 58, 58] then [43, 48, 48]                                    -- +00
      else if flags == [58] then [43, 48, 48, 58, 48, 48]                           -- +00:00
      else if flags == [58, 58] then [43, 48, 48, 58, 48, 48, 58, 48, 48]           -- +00:00:00
      else [43, 48, 48, 48, 48]))                                                   -- +0000
  else if c == 90 then .ok (.str utc)                                  -- Z
  -- weekday
  else if c == 65 then .ok (.str (Cal.weekdayName t.wday))             -- A
  else if c == 97 then .ok (.str (day3 t))                             -- a
  else if c == 117 then .ok (.num (((t.wday + 6) % 7 + 1 : Nat) : Int))    -- u
  else if c == 119 then .ok (.num t.wday)                              -- w
  -- ISO week and year
  else if c == 71 then .ok (.num (Cal.isoWeek t.days).1)               -- G
  else if c == 103 then .ok (.num (Int.tmod (Cal.isoWeek t.days).1 100))   -- g
  else if c == 86 then .ok (.num (Cal.isoWeek t.days).2)               -- V
  -- Ruby week
  else if c == 85 then                                                 -- U
    let d : Int := (t.yday : Int) - t.wday
    .ok (.num (Int.tdiv (d + 6) 7))
  else if c == 87 then                                                 -- W
    let d : Int := (t.yday : Int) - t.wday + 1 - (if t.wday == 0 then 7 else 0)
    .ok (.num (Int.tdiv (d + 6) 7))
  -- epoch seconds
  else if c == 115 then .ok (.num t.unix)                              -- s
  else if c == 81 then .ok (.num (Int.tdiv (wrapInt64 (t.unix * 1000000000)) 1000))   -- Q: UnixNano() / 1000
  -- literals
  else if c == 110 then .ok (.str [10])
  else if c == 116 then .ok (.str [9])
  else if c == 37 then .ok (.str [37])
  -- combinations
  else if c == 99 then                                                 -- c: "%s %s %2d %02d:%02d:%02d %04d"
    .ok (.str (day3 t ++ 32 :: mon3 t ++ 32 :: s2 t.day ++ 32 :: clock t ++ 32 :: year4 t.year))
  else if c == 68 || c == 120 then                                     -- D x: "%02d/%02d/%02d"
    .ok (.str (z2 t.month ++ 47 :: z2 t.day ++ 47 :: fmtNum .zero 2 (Int.tmod t.year 100)))
  else if c == 70 then                                                 -- F: "%04d-%02d-%02d"
    .ok (.str (year4 t.year ++ 45 :: z2 t.month ++ 45 :: z2 t.day))
  else if c == 118 then                                                -- v: "%2d-%s-%04d"
    .ok (.str (s2 t.day ++ 45 :: (mon3 t).map toUpperB ++ 45 :: year4 t.year))
  else if c == 114 then                                                -- r: "%02d:%02d:%02d %s"
    .ok (.str (z2 (hour12 t) ++ 58 :: z2 t.min ++ 58 :: z2 t.sec ++ 32 :: amPm t))
  else if c == 82 then .ok (.str (z2 t.hour ++ 58 :: z2 t.min))        -- R
  else if c == 84 || c == 88 then .ok (.str (clock t))                 -- T X
  else if c == 43 then                                                 -- +: Strftime("%a %b %e %H:%M:%S %Z %Y", t)
    .ok (.str (day3 t ++ 32 :: mon3 t ++ 32 :: s2 t.day ++ 32 :: clock t ++ 32 :: utc ++ 32 :: year4 t.year))
  else .ok (.str [37, c])

/-- the replacement of one match -/
def directive (t : Cal.Broken) (d : Directive) : R Bytes :=
  (convertD t d.conv d.flags d.width).bind fun
    | .str s => .ok (applyFlags d.flags s)
    | .num n => (numText d.conv d.flags d.width n).bind fun s => .ok (applyFlags d.flags s)

/-- `re.ReplaceAllStringFunc(format, …)`; fuel: the length of the format -/
def strftimeAux (t : Cal.Broken) : Nat → Bytes → R Bytes
  | 0, _ => .ok []
  | _ + 1, [] => .ok []
  | n + 1, b :: r =>
    if b == 37 then
      match matchDirective r with
      | some (d, rest) => (directive t d).bind fun out => (strftimeAux t n rest).bind fun tl => .ok (out ++ tl)
      | none => (strftimeAux t n r).bind fun tl => .ok (b :: tl)
    else (strftimeAux t n r).bind fun tl => .ok (b :: tl)

/-- `tuesday.Strftime(format, t)` for `t = time.Unix(u, 0).UTC()` -/
def strftime (t : Cal.Broken) (format : Bytes) : R Bytes := strftimeAux t format.length format

/-! ## the filter body -/

def date : FilterImpl
  | [.val (.time u), fmtArg] =>
    (fmtArg.call (.str defaultFormat)).bind fun
      | .str f =>
        if Cal.timeModelled u then (strftime (Cal.broken u) f).bind fun out => ret (.str out)
        else .unmodelled notModelledTime
      | _ => badArgs
  | _ => badArgs

/-- the implementations this file contributes to the filter table -/
def impls : List (Bytes × FilterImpl) := [([100, 97, 116, 101], date)]

end DateF
