import Liquid.Call
import Liquid.Compare
import Liquid.Lookup
import Liquid.Filters.Str
/-!
# Array filters (DESIGN §6 C15): compact concat join map reverse sort sort_natural first last uniq

Each body follows `filters/standard_filters.go`, `filters/sort_filters.go`, `values/sort.go`
*after* the repairs in `fixes/` (`D4-uniq-nil`, `uniq-uncomparable-values`, `D4-sort-natural`,
`sort-key-defined-string-type`, `array-nil-element`, `drops-in-arrays`). (`size` is in `Num.lean`.)

A body receives its arguments after `values.Call`: the receiver is always a `[]any`
(`GoVal.slice .any xs`) — `Convert.lean` turned typed slices, fixed arrays, ranges, maps (values in
sorted key order) and ordered maps into one, resolving drops one level — and a `nil` receiver is
the empty `[]any`.

## Sorting

Go sorts with `sort.Sort` (pdqsort; insertion sort up to 12 elements), which is *not stable*, over
`values.Less` (`Cmp.less`). The model sorts with `List.mergeSort` over the same `Less`
(`sortLe a b = ¬ Less b a`). What Go guarantees — and what C15 claims — is that the result is a
permutation of the input that is sorted with respect to `Less`; the order of elements that `Less`
does not separate is unspecified. Hence:

* `Less` is a strict weak order only on *homogeneous* arrays (`homog`): all integers (compared
  exactly), all numbers with every integer inside ±2⁵³ (integers and floats meet as `float64`,
  which is exact there), all strings, all booleans, all nil, or all values `Less` never orders
  (arrays, maps, …). On any other array (numbers mixed with strings or nil, integers beyond 2⁵³
  mixed with floats) sortedness is not even well defined and Go's result depends on pdqsort's
  comparison sequence: the model answers `unmodelled` (the harness oracle still checks that the
  real result is a permutation).
* `sort` by a key orders by `index(i)` (the entry of a string-keyed map, else nil) with nil first;
  the non-nil keys must be homogeneous.
* the `filter`/`render`/`numf` protocol lines compare the result list verbatim, which is
  meaningful when ties cannot be permuted: up to 12 elements Go's insertion sort is stable and
  agrees with `mergeSort`; above that the impl answers `unmodelled` when two tied elements are
  distinguishable (`tiesVisible`). The `sortc` line (stream `arrf`) compares the *canonical form*
  instead, for every length: the sequence of sort keys of the result (`canonKey`: the exact
  number, the string, `n` for nil, `?` for unordered values) and the multiset of the elements
  (their encodings, sorted). Two sorted permutations of the same homogeneous array have the same
  canonical form, so this compares exactly what the property claims.
* `sort_natural` (repaired) orders by a text key — `""` for nil, else `strings.ToUpper` of the
  printed form; with a key argument `strings.ToLower` of the string entry of a string-keyed map,
  else `""` — a total preorder on every array, so it is never `unmodelled` for its order.

## uniq

Go keeps the first occurrence of each class of equal elements; equality is Go's `==` on the
interface values for hashable kinds (through a `map[any]bool`) and `==`/`reflect.DeepEqual`
otherwise — in every case "same dynamic type and same contents". The line-protocol encoding
`GoVal.enc` spells exactly the dynamic type and the contents, so two model values are equal for
`uniq` iff their encodings are equal (`1` and `1.0`, `int8 1` and `int 1` are different).
Pointer identity is not in the model: an element containing a non-nil pointer is `unmodelled`.
-/

namespace ArrF

abbrev R := Res Cause

def bn (s : String) : Bytes := s.toUTF8.toList

def badArgs : R GoVal := .panic "filter called with arguments of the wrong type"

/-! ## compact, concat, reverse, first, last -/

/-- `for _, item := range a { if item != nil { result = append(result, item) } }` -/
def compactF : List GoVal → List GoVal
  | [] => []
  | x :: xs => if x.isNil then compactF xs else x :: compactF xs

def compact : List GoVal → R GoVal
  | [.slice .any xs] => .ok (.slice .any (compactF xs))
  | _ => badArgs

/-- `append(append(make([]any, 0, len(a)+len(b)), a...), b...)` -/
def concatF (xs ys : List GoVal) : List GoVal := xs ++ ys

def concat : List GoVal → R GoVal
  | [.slice .any xs, .slice .any ys] => .ok (.slice .any (concatF xs ys))
  | _ => badArgs

/-- `for i, x := range a { result[len(result)-1-i] = x }`: the elements are laid down from the back -/
def reverseF (xs : List GoVal) : List GoVal := xs.foldl (fun acc x => x :: acc) []

def reverse : List GoVal → R GoVal
  | [.slice .any xs] => .ok (.slice .any (reverseF xs))
  | _ => badArgs

/-- `if len(a) == 0 { return nil }; return a[0]` -/
def firstF : List GoVal → GoVal
  | [] => .nil
  | x :: _ => x

/-- `if len(a) == 0 { return nil }; return a[len(a)-1]` -/
def lastF : List GoVal → GoVal
  | [] => .nil
  | [x] => x
  | _ :: y :: r => lastF (y :: r)

def first : List GoVal → R GoVal
  | [.slice .any xs] => .ok (firstF xs)
  | _ => badArgs

def last : List GoVal → R GoVal
  | [.slice .any xs] => .ok (lastF xs)
  | _ => badArgs

/-! ## join -/

/-- `strings.Join` -/
def joinBytes (sep : Bytes) : List Bytes → Bytes
  | [] => []
  | [a] => a
  | a :: b :: rest => a ++ sep ++ joinBytes sep (b :: rest)

/-- `for _, v := range a { if v != nil { ss = append(ss, fmt.Sprint(v)) } }` -/
def sprintNonNil : List GoVal → R (List Bytes)
  | [] => .ok []
  | x :: xs =>
    if x.isNil then sprintNonNil xs
    else (sprint x).bind fun b => (sprintNonNil xs).bind fun bs => .ok (b :: bs)

def joinF (xs : List GoVal) (sep : Bytes) : R GoVal :=
  (sprintNonNil xs).bind fun ss => .ok (.str (joinBytes sep ss))

/-- `sep(" ")` is evaluated first, whatever the array holds -/
def join : List GoVal → R GoVal
  | [.slice .any xs] => joinF xs [32]
  | [.slice .any xs, .str sep] => joinF xs sep
  | _ => badArgs

/-! ## map -/

/-- `values.ValueOf(obj).PropertyValue(values.ValueOf(key)).Interface()` -/
def propOf (x : GoVal) (k : Bytes) : R GoVal :=
  match GoVal.propertyValue x k with
  | .val v => .ok v.unwrap
  | .unmodelled w => .unmodelled w

def mapF (k : Bytes) : List GoVal → R (List GoVal)
  | [] => .ok []
  | x :: xs => (propOf x k).bind fun v => (mapF k xs).bind fun vs => .ok (v :: vs)

def map : List GoVal → R GoVal
  | [.slice .any xs, .str k] => (mapF k xs).bind fun vs => .ok (.slice .any vs)
  | _ => badArgs

/-! ## uniq -/

/-- does the value contain a non-nil pointer (whose identity `==` would compare)? -/
def hasPtr : GoVal → Bool
  | .ptr _ => true
  | .slice _ xs | .array _ xs => hasPtrList xs
  | .map _ _ kvs | .mapSlice kvs => hasPtrKVs kvs
  | .keyedMap fs | .struct fs => hasPtrFields fs
  | .drop v => hasPtr v
  | _ => false
where
  hasPtrList : List GoVal → Bool
    | [] => false
    | x :: xs => hasPtr x || hasPtrList xs
  hasPtrKVs : List (GoVal × GoVal) → Bool
    | [] => false
    | (k, v) :: r => hasPtr k || hasPtr v || hasPtrKVs r
  hasPtrFields : List (Bytes × GoVal) → Bool
    | [] => false
    | (_, v) :: r => hasPtr v || hasPtrFields r

/-- The loop of `uniqFilter` for an equality given by a key: `seen` holds the keys of `result`;
an item is appended iff no earlier kept item has the same key. -/
def uniqOn {α κ : Type} [BEq κ] (key : α → κ) : List κ → List α → List α
  | _, [] => []
  | seen, x :: xs =>
    if seen.contains (key x) then uniqOn key seen xs
    else x :: uniqOn key (key x :: seen) xs

/-- Go equality of two elements (see the header): same dynamic type, same contents -/
def same (a b : GoVal) : Bool := a.enc == b.enc

def uniqF (xs : List GoVal) : List GoVal := uniqOn GoVal.enc [] xs

def uniq : List GoVal → R GoVal
  | [.slice .any xs] =>
    if xs.any hasPtr then .unmodelled "uniq: pointer identity"
    else .ok (.slice .any (uniqF xs))
  | _ => badArgs

/-! ## sort -/

/-- `values.Less(a, b)` as a Boolean (it never fails: `Proofs/CompareLemmas.less_noPanic`) -/
def lessB (a b : GoVal) : Bool :=
  match Cmp.less a b with
  | .ok r => r
  | _ => false

/-- "`a` may stay before `b`": `¬ Less(b, a)` -/
def sortLe (a b : GoVal) : Bool := !lessB b a

/-- `values.Sort` up to the order of ties -/
def sortF (xs : List GoVal) : List GoVal := xs.mergeSort sortLe

/-- `index(i)` of `sortableByProperty.Less`: the entry of a map with string keys, else nil -/
def keyIndex (key : Bytes) (x : GoVal) : GoVal :=
  match x.toLiquid with
  | .map .str _ kvs => (GoVal.mapFind kvs (.str key)).getD .nil
  | .keyedMap fs => (GoVal.lookupFields fs key).getD .nil
  | _ => .nil

/-- `sortableByProperty.Less` with `nilFirst = true` -/
def lessByKey (key : Bytes) (a b : GoVal) : Bool :=
  match (keyIndex key a).isNil, (keyIndex key b).isNil with
  | true, true => false
  | true, false => true
  | false, true => false
  | false, false => lessB (keyIndex key a) (keyIndex key b)

def sortByLe (key : Bytes) (a b : GoVal) : Bool := !lessByKey key b a

/-- `values.SortByProperty(·, key, true)` up to the order of ties -/
def sortByF (key : Bytes) (xs : List GoVal) : List GoVal := xs.mergeSort (sortByLe key)

/-- the classes of values `Less` orders among themselves -/
inductive KClass where
  | nil | bool | int | flt | str | other
  deriving DecidableEq, Repr

def kclass (v : GoVal) : KClass :=
  match Cmp.toLiq v with
  | .nil => .nil
  | .bool _ => .bool
  | .int _ _ => .int
  | .flt _ _ => .flt
  | .str _ => .str
  | _ => .other

/-- a number that `float64` holds exactly when it is an integer -/
def smallNum (v : GoVal) : Bool :=
  match Cmp.toLiq v with
  | .int _ n => decide (n.natAbs ≤ 2 ^ 53)
  | .flt _ _ => true
  | _ => false

def isClass (c : KClass) (v : GoVal) : Bool := kclass v == c

/-- the arrays on which `Less` is a strict weak order whose ties share their sort key -/
def homog (ks : List GoVal) : Bool :=
  ks.all (isClass .int) || ks.all smallNum || ks.all (isClass .str) || ks.all (isClass .bool) ||
  ks.all (isClass .nil) || ks.all (isClass .other)

def nonNil (v : GoVal) : Bool := !v.isNil

/-- `homog` for `sort` by a key: nil keys sort first, the others must be homogeneous -/
def homogBy (key : Bytes) (xs : List GoVal) : Bool :=
  homog ((xs.map (keyIndex key)).filter nonNil)

/-- are there two adjacent elements of a sorted list that are tied but distinguishable? -/
def tiesVisible (le : GoVal → GoVal → Bool) : List GoVal → Bool
  | a :: b :: rest => (le b a && a.enc != b.enc) || tiesVisible le (b :: rest)
  | _ => false

/-- the verbatim result is comparable with Go's: at most 12 elements (insertion sort, stable) or
no visible ties -/
def stableEnough (le : GoVal → GoVal → Bool) (ys : List GoVal) : Bool :=
  ys.length ≤ 12 || !tiesVisible le ys

def notSWO : R GoVal := .unmodelled "sort: Less is not a strict weak order on this array (mixed kinds)"
def tieOrder : R GoVal := .unmodelled "sort: more than 12 elements with distinguishable ties (unstable sort)"

/-- `sortFilter`; `strict`: answer only when the verbatim list is determined -/
def sortWith (strict : Bool) : List GoVal → R GoVal
  | [.slice .any xs, .nil] =>
    if !homog xs then notSWO else
    let ys := sortF xs
    if strict && !stableEnough sortLe ys then tieOrder else .ok (.slice .any ys)
  | [.slice .any xs, key] =>
    (sprint key).bind fun k =>
    if !homogBy k xs then notSWO else
    let ys := sortByF k xs
    if strict && !stableEnough (sortByLe k) ys then tieOrder else .ok (.slice .any ys)
  | _ => badArgs

def sort : List GoVal → R GoVal := sortWith true

/-! ## sort_natural (repaired) -/

def caseRes (o : Option Bytes) : R Bytes :=
  match o with
  | some b => .ok b
  | none => .unmodelled "case table"

/-- the sort text of an element: `""` for nil, else `strings.ToUpper(fmt.Sprint(v))` -/
def natKey (v : GoVal) : R Bytes :=
  match v with
  | .nil => .ok []
  | w => (sprint w).bind fun s => caseRes (StrF.upcase s)

/-- the sort text with a key: `strings.ToLower` of the string entry of a string-keyed map, else `""`
(`reflect.ValueOf(m)`: no `ToLiquid` here — `Convert` already resolved the elements) -/
def natKeyBy (key : Bytes) (m : GoVal) : R Bytes :=
  let entry : Option GoVal := match m with
    | .map .str _ kvs => GoVal.mapFind kvs (.str key)
    | .keyedMap fs => GoVal.lookupFields fs key
    | _ => none
  match entry with
  | some (.str s) => caseRes (StrF.downcase s)
  | _ => .ok []

def decorate (f : GoVal → R Bytes) : List GoVal → R (List (Bytes × GoVal))
  | [] => .ok []
  | x :: xs => (f x).bind fun k => (decorate f xs).bind fun r => .ok ((k, x) :: r)

/-- `keySortable.Less`: `a < b` on the sort texts -/
def textLe (p q : Bytes × GoVal) : Bool := !Cmp.bytesLt q.1 p.1

def sortTexts (ds : List (Bytes × GoVal)) : List (Bytes × GoVal) := ds.mergeSort textLe

def tiesVisibleT : List (Bytes × GoVal) → Bool
  | a :: b :: rest => (textLe b a && a.2.enc != b.2.enc) || tiesVisibleT (b :: rest)
  | _ => false

def sortNaturalWith (strict : Bool) : List GoVal → R GoVal
  | [.slice .any xs, key] =>
    let keyFn : R (GoVal → R Bytes) := match key with
      | .nil => .ok natKey
      | k => (sprint k).bind fun name => .ok (natKeyBy name)
    keyFn.bind fun f => (decorate f xs).bind fun ds =>
    let ys := sortTexts ds
    if strict && !(ys.length ≤ 12 || !tiesVisibleT ys) then tieOrder
    else .ok (.slice .any (ys.map (·.2)))
  | _ => badArgs

def sortNatural : List GoVal → R GoVal := sortNaturalWith true

/-! ## the table -/

def eager (f : List GoVal → R GoVal) : FilterImpl := FilterImpl.ofEager false f

/-- the implementations this file contributes to the filter table -/
def impls : List (Bytes × FilterImpl) := [
  (bn "compact", eager compact), (bn "concat", eager concat), (bn "join", eager join), (bn "map", eager map),
  (bn "reverse", eager reverse), (bn "sort", eager sort), (bn "first", eager first), (bn "last", eager last),
  (bn "uniq", eager uniq), (bn "sort_natural", eager sortNatural)]

/-- the same table with the sorts answering whenever the *canonical form* is determined -/
def implsCanon : List (Bytes × FilterImpl) :=
  [(bn "sort", eager (sortWith false)), (bn "sort_natural", eager (sortNaturalWith false))] ++ impls

/-! ## Canonical form of a sort result (`sortc` line of the `arrf` stream) -/

/-- an exact number as text -/
def ratText (num : Int) (den : Nat) : String := s!"#{num}/{den}"

/-- the sort key of a value, as text: tied values of a homogeneous array have the same text
(`Proofs/C15.sort_canonical`) -/
def canonKey (v : GoVal) : String :=
  match Cmp.toLiq v with
  | .nil => "n"
  | .bool true => "t"
  | .bool false => "f"
  | .int _ n => ratText n 1
  | .flt _ q => ratText q.num q.den
  | .str s => "s" ++ hexEncode s
  | _ => "?"

def canonForm (keys : List String) (ys : List GoVal) : String :=
  "ok K:" ++ ",".intercalate keys ++ " M:" ++ ",".intercalate ((ys.map GoVal.enc).mergeSort (fun a b => decide (a ≤ b)))

def textKeys (f : GoVal → R Bytes) (ys : List GoVal) : R (List String) :=
  (decorate f ys).bind fun ds => .ok (ds.map fun d => "s" ++ hexEncode d.1)

/-- `sortc <namehex> <recv> <key>?`: `x | sort[: key]` or `x | sort_natural[: key]` in canonical form -/
def runSortc (table : List (Bytes × FilterImpl)) (name : Bytes) (recv : GoVal) (args : List GoVal) : String :=
  match evalFilter (lookupImpl (implsCanon ++ table)) name recv args with
  | .err c => "err " ++ c.kind
  | .panic _ => "panic"
  | .unmodelled w => "unmodelled " ++ w
  | .ok (.slice .any ys) =>
    let key : GoVal := (args.map viaValue).headD .nil
    let keys : R (List String) :=
      if name == bn "sort" then
        match key with
        | .nil => .ok (ys.map canonKey)
        | k => (sprint k.toLiquid).bind fun nm => .ok (ys.map fun y => canonKey (keyIndex nm y))
      else
        match key with
        | .nil => textKeys natKey ys
        | k => (sprint k.toLiquid).bind fun nm => textKeys (natKeyBy nm) ys
    match keys with
    | .ok ks => canonForm ks ys
    | .err c => "err " ++ c.kind
    | .panic _ => "panic"
    | .unmodelled w => "unmodelled " ++ w
  | .ok _ => "unmodelled sortc: result is not a []any"

end ArrF
