import Liquid.Call
import Liquid.Compare
import Liquid.Lookup
import Liquid.Filters.Str
import Liquid.InsertionSort
import Liquid.MapOrder
/-!
# Array filters (DESIGN §6 C15): compact concat join map reverse sort sort_natural first last uniq

Each body follows `filters/standard_filters.go`, `filters/sort_filters.go`, `values/sort.go`
*after* the repairs in `fixes/` (`D4-uniq-nil`, `uniq-uncomparable-values`, `D4-sort-natural`,
`sort-key-defined-string-type`, `array-nil-element`, `drops-in-arrays`, `sort-key-drops`). (`size` is in `Num.lean`.)

A body receives its arguments after `values.Call`: the receiver is always a `[]any`
(`GoVal.slice .any xs`) — `Convert.lean` turned typed slices, fixed arrays, ranges, maps (values in
sorted key order) and ordered maps into one, resolving drops one level — and a `nil` receiver is
the empty `[]any`.

## Sorting

Go sorts with `sort.Sort` over `values.Less` (`Cmp.less`). `sort.Sort` is pdqsort, which is *not
stable* — but `pdqsort` begins with `if length <= 12 { insertionSort(data, a, b); return }`, so:

* **up to 12 elements** (`maxInsertion`) the result is the one of `insertionSort`
  (`sort/zsortinterface.go`, modelled in `Liquid/InsertionSort.lean`), whatever the comparator — a strict weak order or not. The model runs
  the same two loops (`insertionSortM`: element `i` travels left while `Less(data[j], data[j-1])`)
  over the same comparators (`Cmp.less`; `lessByKeyM` for `sort: key`; `natLessM` for
  `sort_natural`, which computes both sort texts at every comparison as `keySortable.Less` does), so
  the exact list is determined: mixed arrays (numbers next to strings or nil, integers beyond 2⁵³
  next to floats) are answered like any other, and a comparison that is outside the model (or
  panics) matters exactly when the real algorithm performs it.
* **beyond 12 elements** the model sorts with `List.mergeSort` over the same `Less`
  (`sortLe a b = ¬ Less b a`). What Go guarantees there — and what C15 claims — is that the result
  is a permutation of the input that is sorted with respect to `Less`; the order of elements that
  `Less` does not separate is unspecified. `Less` is a strict weak order only on *homogeneous*
  arrays (`homog`): all integers (compared exactly), all numbers with every integer inside ±2⁵³
  (integers and floats meet as `float64`, which is exact there), all strings, all booleans, all
  nil, or all values `Less` never orders (arrays, maps, …). On any other array of more than 12
  elements sortedness is not even well defined and Go's result depends on pdqsort's comparison
  sequence: the model answers `unmodelled` (the harness oracle still checks that the real result
  is a permutation). `sort` by a key orders by `index(i)` (the entry of a string-keyed map, else
  nil) with nil first; beyond 12 elements the non-nil keys must be homogeneous.
* the `filter`/`render`/`numf` protocol lines compare the result list verbatim. Beyond 12 elements
  that is meaningful when ties cannot be permuted: the impl answers `unmodelled` when two tied
  elements are distinguishable (`tiesVisible`). The `sortc` line (stream `arrf`) compares the
  verbatim list up to 12 elements and the *canonical form* beyond: the sequence of sort keys of
  the result (`canonKey`: the exact number, the string, `n` for nil, `?` for unordered values) and
  the multiset of the elements (their encodings, sorted). Two sorted permutations of the same
  homogeneous array have the same canonical form, so this compares exactly what the property claims.
* `sort_natural` (repaired) orders by a text key — `""` for nil, else `strings.ToUpper` of the
  printed form; with a key argument `strings.ToLower` of the string entry of a string-keyed map,
  else `""` — a total preorder on every array, so it is never `unmodelled` for its order.

## uniq

Go keeps the first occurrence of each class of equal elements. Equality is Go's `==` on the interface
values for hashable kinds (through a `map[any]bool`): same dynamic type and same contents. For the other
kinds it is `eqItems` (after `fixes/nested-drops-resolved`): two arrays or slices are equal when they have
equal elements, two maps when they have the same key type and equal values under the same keys — whatever the
Go type of the container, with a drop inside standing for its value, as `values.Equal` has it — and anything
else (scalars inside them, structs) by `==`/`reflect.DeepEqual`, i.e. same dynamic type and same contents.
The line-protocol encoding `GoVal.enc` spells exactly the dynamic type and the contents, with the entries of a
map in the order the value holds them; `MapOrder.canonEnc` is the encoding with every map in the codec's
canonical order; `uniqForm` forgets the container types and resolves the drops. So two model values are equal
for `uniq` iff the canonical encodings of their `uniqForm`s are equal (`1` and `1.0`, `int8 1` and `int 1` are
different; `[]int{1}` and `[]any{1}` are the same; two maps with the same entries are the same).
Pointer identity is not in the model: an element containing a non-nil pointer is `unmodelled`.
-/

namespace ArrF

abbrev R := Res Cause

def bn (s : String) : Bytes := s.toUTF8.toList

def badArgs : R GoVal := .panic "filter called with arguments of the wrong type"

/-! ## compact, concat, reverse, first, last -/

/-- `for _, item := range a { if item != nil { result = append(result, item) } }` -/
def compactF : List GoVal → List GoVal
  | [] => []
  | x :: xs => if x.isNil then compactF xs else x :: compactF xs

def compact : List GoVal → R GoVal
  | [.slice .any xs] => .ok (.slice .any (compactF xs))
  | _ => badArgs

/-- `append(append(make([]any, 0, len(a)+len(b)), a...), b...)` -/
def concatF (xs ys : List GoVal) : List GoVal := xs ++ ys

def concat : List GoVal → R GoVal
  | [.slice .any xs, .slice .any ys] => .ok (.slice .any (concatF xs ys))
  | _ => badArgs

/-- `for i, x := range a { result[len(result)-1-i] = x }`: the elements are laid down from the back -/
def reverseF (xs : List GoVal) : List GoVal := xs.foldl (fun acc x => x :: acc) []

def reverse : List GoVal → R GoVal
  | [.slice .any xs] => .ok (.slice .any (reverseF xs))
  | _ => badArgs

/-- `if len(a) == 0 { return nil }; return a[0]` -/
def firstF : List GoVal → GoVal
  | [] => .nil
  | x :: _ => x

/-- `if len(a) == 0 { return nil }; return a[len(a)-1]` -/
def lastF : List GoVal → GoVal
  | [] => .nil
  | [x] => x
  | _ :: y :: r => lastF (y :: r)

def first : List GoVal → R GoVal
  | [.slice .any xs] => .ok (firstF xs)
  | _ => badArgs

def last : List GoVal → R GoVal
  | [.slice .any xs] => .ok (lastF xs)
  | _ => badArgs

/-! ## join -/

/-- `strings.Join` -/
def joinBytes (sep : Bytes) : List Bytes → Bytes
  | [] => []
  | [a] => a
  | a :: b :: rest => a ++ sep ++ joinBytes sep (b :: rest)

/-- `for _, v := range a { if v != nil { ss = append(ss, fmt.Sprint(values.ResolveDrops(v))) } }` -/
def sprintNonNil : List GoVal → R (List Bytes)
  | [] => .ok []
  | x :: xs =>
    if x.isNil then sprintNonNil xs
    else (sprintR x).bind fun b => (sprintNonNil xs).bind fun bs => .ok (b :: bs)

def joinF (xs : List GoVal) (sep : Bytes) : R GoVal :=
  (sprintNonNil xs).bind fun ss => .ok (.str (joinBytes sep ss))

/-- `sep(" ")` is evaluated first, whatever the array holds -/
def join : List GoVal → R GoVal
  | [.slice .any xs] => joinF xs [32]
  | [.slice .any xs, .str sep] => joinF xs sep
  | _ => badArgs

/-! ## map -/

/-- `values.ValueOf(obj).PropertyValue(values.ValueOf(key)).Interface()` -/
def propOf (x : GoVal) (k : Bytes) : R GoVal :=
  match GoVal.propertyValue x k with
  | .val v => .ok v.unwrap
  | .unmodelled w => .unmodelled w

def mapF (k : Bytes) : List GoVal → R (List GoVal)
  | [] => .ok []
  | x :: xs => (propOf x k).bind fun v => (mapF k xs).bind fun vs => .ok (v :: vs)

def map : List GoVal → R GoVal
  | [.slice .any xs, .str k] => (mapF k xs).bind fun vs => .ok (.slice .any vs)
  | _ => badArgs

/-! ## uniq -/

/-- does the value contain a non-nil pointer (whose identity `==` would compare)? -/
def hasPtr : GoVal → Bool
  | .ptr _ => true
  | .slice _ xs | .array _ xs => hasPtrList xs
  | .map _ _ kvs | .mapSlice kvs => hasPtrKVs kvs
  | .keyedMap fs | .struct fs => hasPtrFields fs
  | .drop v => hasPtr v
  | _ => false
where
  hasPtrList : List GoVal → Bool
    | [] => false
    | x :: xs => hasPtr x || hasPtrList xs
  hasPtrKVs : List (GoVal × GoVal) → Bool
    | [] => false
    | (k, v) :: r => hasPtr k || hasPtr v || hasPtrKVs r
  hasPtrFields : List (Bytes × GoVal) → Bool
    | [] => false
    | (_, v) :: r => hasPtr v || hasPtrFields r

/-- The loop of `uniqFilter` for an equality given by a key: `seen` holds the keys of `result`;
an item is appended iff no earlier kept item has the same key. -/
def uniqOn {α κ : Type} [BEq κ] (key : α → κ) : List κ → List α → List α
  | _, [] => []
  | seen, x :: xs =>
    if seen.contains (key x) then uniqOn key seen xs
    else x :: uniqOn key (key x :: seen) xs

mutual
/-- what `eqItems` compares (`fixes/nested-drops-resolved`): arrays and maps by what they hold, whatever the
    Go type that holds it — a typed slice or a fixed array is the generic slice of its elements, a typed map
    the generic map with the same key type, a drop in them is its value, at every depth — and everything else
    (scalars, structs, the items of a `yaml.MapSlice`) as it is. -/
def uniqForm : GoVal → GoVal
  | .drop v => uniqForm v
  | .ptr (.drop v) => uniqForm v
  | .slice _ xs => .slice .any (uniqFormList xs)
  | .array _ xs => .slice .any (uniqFormList xs)
  | .bytes s => .slice .any (s.map fun b => .int .u8 b.toNat)     -- `[]byte` is `[]uint8`
  | .mapSlice kvs => .slice .any (kvs.map fun kv => GoVal.struct [([], kv.1), ([], kv.2)])   -- a slice of `MapItem` structs
  | .map k _ kvs => .map k .any (uniqFormVals kvs)
  | .keyedMap fs => .map .str .any (uniqFormFields fs)            -- a defined `map[string]any`
  | v => v
def uniqFormList : List GoVal → List GoVal
  | [] => []
  | x :: xs => uniqForm x :: uniqFormList xs
def uniqFormVals : List (GoVal × GoVal) → List (GoVal × GoVal)
  | [] => []
  | (k, v) :: r => (k, uniqForm v) :: uniqFormVals r
def uniqFormFields : List (Bytes × GoVal) → List (GoVal × GoVal)
  | [] => []
  | (k, v) :: r => (.str k, uniqForm v) :: uniqFormFields r
end

/-- the key of an element in `uniq`: same key, same element (see the header) -/
def uniqKey (v : GoVal) : String := MapOrder.canonEnc (uniqForm v)

/-- equality of two elements in `uniq` (see the header) -/
def same (a b : GoVal) : Bool := uniqKey a == uniqKey b

def uniqF (xs : List GoVal) : List GoVal := uniqOn uniqKey [] xs

def uniq : List GoVal → R GoVal
  | [.slice .any xs] =>
    if xs.any hasPtr then .unmodelled "uniq: pointer identity"
    else .ok (.slice .any (uniqF xs))
  | _ => badArgs

/-! ## sort -/

/-- `values.Less(a, b)` as a Boolean (it always answers: `Proofs/ArrLemmas.less_eq_lessB`) -/
def lessB (a b : GoVal) : Bool :=
  match Cmp.less a b with
  | .ok r => r
  | _ => false

/-- "`a` may stay before `b`": `¬ Less(b, a)` -/
def sortLe (a b : GoVal) : Bool := !lessB b a

/-- What `values.Sort` computes: the insertion sort up to 12 elements; beyond, a sorted permutation
(Go's up to the order of ties when `Less` is a strict weak order on the array). -/
def sortF (xs : List GoVal) : List GoVal :=
  if xs.length ≤ maxInsertion then insertionSort lessB xs else xs.mergeSort sortLe

/-- `index(i)` of `sortableByProperty.Less`: the entry of a map with string keys — through `ToLiquid`
(`fixes/sort-key-drops`: an entry that is a drop yielding nil is nil for the nil test that follows) —, else nil -/
def keyIndex (key : Bytes) (x : GoVal) : GoVal :=
  match x.toLiquid with
  | .map .str _ kvs => ((GoVal.mapFind kvs (.str key)).getD .nil).toLiquid
  | .keyedMap fs => ((GoVal.lookupFields fs key).getD .nil).toLiquid
  | _ => .nil

/-- `sortableByProperty.Less` with `nilFirst = true` -/
def lessByKey (key : Bytes) (a b : GoVal) : Bool :=
  match (keyIndex key a).isNil, (keyIndex key b).isNil with
  | true, true => false
  | true, false => true
  | false, true => false
  | false, false => lessB (keyIndex key a) (keyIndex key b)

/-- the same with `values.Less` as the partial function it is in the model -/
def lessByKeyM (key : Bytes) (a b : GoVal) : R Bool :=
  match (keyIndex key a).isNil, (keyIndex key b).isNil with
  | true, true => .ok false
  | true, false => .ok true
  | false, true => .ok false
  | false, false => Cmp.less (keyIndex key a) (keyIndex key b)

def sortByLe (key : Bytes) (a b : GoVal) : Bool := !lessByKey key b a

/-- What `values.SortByProperty(·, key, true)` computes (as `sortF`) -/
def sortByF (key : Bytes) (xs : List GoVal) : List GoVal :=
  if xs.length ≤ maxInsertion then insertionSort (lessByKey key) xs else xs.mergeSort (sortByLe key)

/-- the classes of values `Less` orders among themselves -/
inductive KClass where
  | nil | bool | int | flt | str | other
  deriving DecidableEq, Repr

def kclass (v : GoVal) : KClass :=
  match Cmp.toLiq v with
  | .nil => .nil
  | .bool _ => .bool
  | .int _ _ => .int
  | .flt _ _ => .flt
  | .str _ => .str
  | _ => .other

/-- a number that `float64` holds exactly when it is an integer -/
def smallNum (v : GoVal) : Bool :=
  match Cmp.toLiq v with
  | .int _ n => decide (n.natAbs ≤ 2 ^ 53)
  | .flt _ _ => true
  | _ => false

def isClass (c : KClass) (v : GoVal) : Bool := kclass v == c

/-- the arrays on which `Less` is a strict weak order whose ties share their sort key -/
def homog (ks : List GoVal) : Bool :=
  ks.all (isClass .int) || ks.all smallNum || ks.all (isClass .str) || ks.all (isClass .bool) ||
  ks.all (isClass .nil) || ks.all (isClass .other)

def nonNil (v : GoVal) : Bool := !v.isNil

/-- `homog` for `sort` by a key: nil keys sort first, the others must be homogeneous -/
def homogBy (key : Bytes) (xs : List GoVal) : Bool :=
  homog ((xs.map (keyIndex key)).filter nonNil)

/-- are there two adjacent elements of a sorted list that are tied but distinguishable? -/
def tiesVisible (le : GoVal → GoVal → Bool) : List GoVal → Bool
  | a :: b :: rest => (le b a && MapOrder.canonEnc a != MapOrder.canonEnc b) || tiesVisible le (b :: rest)
  | _ => false

/-- the verbatim result is comparable with Go's: at most 12 elements (insertion sort, modelled
exactly) or no visible ties -/
def stableEnough (le : GoVal → GoVal → Bool) (ys : List GoVal) : Bool :=
  ys.length ≤ maxInsertion || !tiesVisible le ys

def notSWO {α : Type} : R α :=
  .unmodelled "sort: Less is not a strict weak order on this array of more than 12 elements (mixed kinds)"
def tieOrder {α : Type} : R α := .unmodelled "sort: more than 12 elements with distinguishable ties (unstable sort)"

/-- `values.Sort(result)` on the copy `result` of the array: exactly Go's list up to 12 elements;
beyond, a sorted permutation when `Less` is a strict weak order on the array -/
def sortM (xs : List GoVal) : R (List GoVal) :=
  if xs.length ≤ maxInsertion then insertionSortM Cmp.less xs
  else if !homog xs then notSWO else .ok (xs.mergeSort sortLe)

/-- `values.SortByProperty(result, key, true)` likewise -/
def sortByM (key : Bytes) (xs : List GoVal) : R (List GoVal) :=
  if xs.length ≤ maxInsertion then insertionSortM (lessByKeyM key) xs
  else if !homogBy key xs then notSWO else .ok (xs.mergeSort (sortByLe key))

/-- `sortFilter`; `strict`: answer only when the verbatim list is determined -/
def sortWith (strict : Bool) : List GoVal → R GoVal
  | [.slice .any xs, .nil] =>
    (sortM xs).bind fun ys =>
    if strict && !stableEnough sortLe ys then tieOrder else .ok (.slice .any ys)
  | [.slice .any xs, key] =>
    (sprintR key).bind fun k =>          -- `fmt.Sprint(values.ResolveDrops(key))` (`fixes/sort-key-drops`)
    (sortByM k xs).bind fun ys =>
    if strict && !stableEnough (sortByLe k) ys then tieOrder else .ok (.slice .any ys)
  | _ => badArgs

def sort : List GoVal → R GoVal := sortWith true

/-! ## sort_natural (repaired) -/

def caseRes (o : Option Bytes) : R Bytes :=
  match o with
  | some b => .ok b
  | none => .unmodelled "case table"

/-- the sort text of an element: `""` for nil, else `strings.ToUpper(fmt.Sprint(values.ResolveDrops(v)))` -/
def natKey (v : GoVal) : R Bytes :=
  match v with
  | .nil => .ok []
  | w => (sprintR w).bind fun s => caseRes (StrF.upcase s)

/-- the sort text with a key: `strings.ToLower` of the string entry of a string-keyed map, else `""`
(`reflect.ValueOf(m)`: no `ToLiquid` here — `Convert` already resolved the elements) -/
def natKeyBy (key : Bytes) (m : GoVal) : R Bytes :=
  let entry : Option GoVal := match m with
    | .map .str _ kvs => GoVal.mapFind kvs (.str key)
    | .keyedMap fs => GoVal.lookupFields fs key
    | _ => none
  match entry.map GoVal.toLiquid with          -- the entry is resolved by `values.ToLiquid` before the string test
  | some (.str s) => caseRes (StrF.downcase s)
  | _ => .ok []

/-- `keySortable.Less`: `a, b := k(sl[i]), k(sl[j]); return a < b` — both sort texts are computed at
every comparison -/
def natLessM (f : GoVal → R Bytes) (a b : GoVal) : R Bool :=
  (f a).bind fun ka => (f b).bind fun kb => .ok (Cmp.bytesLt ka kb)

def decorate (f : GoVal → R Bytes) : List GoVal → R (List (Bytes × GoVal))
  | [] => .ok []
  | x :: xs => (f x).bind fun k => (decorate f xs).bind fun r => .ok ((k, x) :: r)

/-- `keySortable.Less` on elements that carry their sort text -/
def textLt (p q : Bytes × GoVal) : Bool := Cmp.bytesLt p.1 q.1

/-- "`p` may stay before `q`": `¬ (q.text < p.text)` -/
def textLe (p q : Bytes × GoVal) : Bool := !textLt q p

def tiesVisibleT : List (Bytes × GoVal) → Bool
  | a :: b :: rest => (textLe b a && MapOrder.canonEnc a.2 != MapOrder.canonEnc b.2) || tiesVisibleT (b :: rest)
  | _ => false

/-- `sort.Sort(keySortable{result, f})`: exactly Go's list up to 12 elements (the sort texts are
computed when Go computes them: an array of one element is returned as it is); beyond, every
element takes part in a comparison, so every sort text is computed, and the order is a total
preorder: a sorted permutation, Go's up to the order of ties -/
def sortNatM (strict : Bool) (f : GoVal → R Bytes) (xs : List GoVal) : R (List GoVal) :=
  if xs.length ≤ maxInsertion then insertionSortM (natLessM f) xs
  else (decorate f xs).bind fun ds =>
    let ys := ds.mergeSort textLe
    if strict && tiesVisibleT ys then tieOrder else .ok (ys.map (·.2))

/-- What `sort.Sort(keySortable{…})` computes when the sort text of every element is `k` of it
(as `sortF`; `Proofs/C15.sort_natural_model`) -/
def sortNatF (k : GoVal → Bytes) (xs : List GoVal) : List GoVal :=
  if xs.length ≤ maxInsertion then insertionSort (fun a b => Cmp.bytesLt (k a) (k b)) xs
  else ((xs.map fun x => (k x, x)).mergeSort textLe).map (·.2)

def sortNaturalWith (strict : Bool) : List GoVal → R GoVal
  | [.slice .any xs, key] =>
    let keyFn : R (GoVal → R Bytes) := match key with
      | .nil => .ok natKey
      | k => (sprintR k).bind fun name => .ok (natKeyBy name)   -- `fmt.Sprint(values.ResolveDrops(key))`
    keyFn.bind fun f => (sortNatM strict f xs).bind fun ys => .ok (.slice .any ys)
  | _ => badArgs

def sortNatural : List GoVal → R GoVal := sortNaturalWith true

/-! ## the table -/

def eager (f : List GoVal → R GoVal) : FilterImpl := FilterImpl.ofEager false f

/-- the implementations this file contributes to the filter table -/
def impls : List (Bytes × FilterImpl) := [
  (bn "compact", eager compact), (bn "concat", eager concat), (bn "join", eager join), (bn "map", eager map),
  (bn "reverse", eager reverse), (bn "sort", eager sort), (bn "first", eager first), (bn "last", eager last),
  (bn "uniq", eager uniq), (bn "sort_natural", eager sortNatural)]

/-- the same table with the sorts answering whenever the *canonical form* is determined (beyond 12
elements; up to 12 both tables give Go's exact list) -/
def implsCanon : List (Bytes × FilterImpl) :=
  [(bn "sort", eager (sortWith false)), (bn "sort_natural", eager (sortNaturalWith false))] ++ impls

/-! ## Result of a sort case (`sortc` line of the `arrf` stream): the exact list up to 12 elements,
the canonical form beyond -/

/-- an exact number as text -/
def ratText (num : Int) (den : Nat) : String := s!"#{num}/{den}"

/-- the sort key of a value, as text: tied values of a homogeneous array have the same text
(`Proofs/C15.sort_canonical`) -/
def canonKey (v : GoVal) : String :=
  match Cmp.toLiq v with
  | .nil => "n"
  | .bool true => "t"
  | .bool false => "f"
  | .int _ n => ratText n 1
  | .flt _ q => ratText q.num q.den
  | .str s => "s" ++ hexEncode s
  | _ => "?"

def canonForm (keys : List String) (ys : List GoVal) : String :=
  "ok K:" ++ ",".intercalate keys ++ " M:" ++ ",".intercalate ((ys.map MapOrder.canonEnc).mergeSort (fun a b => decide (a ≤ b)))

def textKeys (f : GoVal → R Bytes) (ys : List GoVal) : R (List String) :=
  (decorate f ys).bind fun ds => .ok (ds.map fun d => "s" ++ hexEncode d.1)

/-- `sortc <namehex> <recv> <key>?`: `x | sort[: key]` or `x | sort_natural[: key]`. A result of at most
12 elements is Go's insertion sort, determined element by element: `ok <enc>`. A longer one is
compared in canonical form: `ok K:<keys> M:<multiset>`. -/
def runSortc (table : List (Bytes × FilterImpl)) (name : Bytes) (recv : GoVal) (args : List GoVal) : String :=
  match evalFilter (lookupImpl (implsCanon ++ table)) name recv args with
  | .err c => "err " ++ c.kind
  | .panic _ => "panic"
  | .unmodelled w => "unmodelled " ++ w
  | .ok (.slice .any ys) =>
    if ys.length ≤ maxInsertion then "ok " ++ MapOrder.canonEnc (GoVal.slice .any ys) else
    let key : GoVal := (args.map viaValue).headD .nil
    let keys : R (List String) :=
      if name == bn "sort" then
        match key with
        | .nil => .ok (ys.map canonKey)
        | k => (sprintR k.toLiquid).bind fun nm => .ok (ys.map fun y => canonKey (keyIndex nm y))
      else
        match key with
        | .nil => textKeys natKey ys
        | k => (sprintR k.toLiquid).bind fun nm => textKeys (natKeyBy nm) ys
    match keys with
    | .ok ks => canonForm ks ys
    | .err c => "err " ++ c.kind
    | .panic _ => "panic"
    | .unmodelled w => "unmodelled " ++ w
  | .ok _ => "unmodelled sortc: result is not a []any"

end ArrF
