import Liquid.Call
import Liquid.Filters.Str
/-!
# Plugging the string filter bodies (`Filters/Str.lean`) into the call layer (`Call.lean`)

`StrF.fooF` takes the arguments after `values.Call` conversion, trailing absent arguments
dropped. A default-function parameter (`func(T) T`) that was given an argument contributes
the lazily converted constant; one that was not given is absent.
-/

namespace StrGlue

/-- resolve the converted arguments to plain values; absent default-function arguments may
    only trail -/
def collect : List Arg → Res Cause (Option (List GoVal))
  | [] => .ok (some [])
  | .val v :: rest => (collect rest).bind fun r => .ok (r.map (v :: ·))
  | .fn (some r) :: rest => r.bind fun v => (collect rest).bind fun r' => .ok (r'.map (v :: ·))
  | .fn none :: rest =>
    if rest.all (fun a => match a with | .fn none => true | _ => false) then .ok (some []) else .ok none

/-- `slice` returns "" for an empty receiver *before* it calls its lazily converted `length`
    argument, so an ill-typed length is then never converted (`if len(s) == 0 { return "" }`). -/
def sliceEarly (name : String) (args : List Arg) : Bool :=
  name == "slice" && (match args with | .val (.str []) :: _ => true | _ => false)

def impl (name : String) : FilterImpl := fun args =>
  if sliceEarly name args then ret (.str []) else
  (collect args).bind fun
    | none => .unmodelled "string filter: absent argument before a present one"
    | some vs =>
      match StrF.apply name vs with
      | .ok v => ret v
      | .err c => retErr c          -- the Go function returned a non-nil error
      | .panic w => .panic w
      | .unmodelled w => .unmodelled w

def names : List String :=
  ["append", "prepend", "capitalize", "downcase", "upcase", "escape", "escape_once", "newline_to_br",
   "remove", "remove_first", "replace", "replace_first", "slice", "split", "strip_html", "strip_newlines",
   "strip", "lstrip", "rstrip", "truncate", "truncatewords", "url_encode", "url_decode"]

def impls : List (Bytes × FilterImpl) := names.map fun n => (n.toUTF8.toList, impl n)

end StrGlue
