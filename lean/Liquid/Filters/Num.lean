import Liquid.Call
import Liquid.Utf8
/-!
# Numeric filters (DESIGN §4.5, C17) and the two value filters `default`, `size`

Each definition follows the Go body in `filters/standard_filters.go` (after the repairs D17:
`modulo` by zero is an error, D14: `divided_by` accepts `uint`/`uint64` divisors). Floats are exact
rationals. Go's `+ - * /` on `float64` are IEEE-754 operations: the exact result rounded to nearest,
ties to even — `f64Round (a ∘ b)`; in particular the result is *exact* whenever the exact result is
`Representable`. `math.Abs/Floor/Ceil` and `math.Mod` are exact. Outside the model (`unmodelled`):
results Go would sign negative zero (`0 * -1`, `-4 mod 2`, `0 / -2`), overflow to ±Inf, NaN, and
float→int conversions out of the `int64` range (implementation-defined).
-/

namespace Num

/-- the float64 result of an operation whose exact result is `q` -/
def fltResult (q : Rat) (negZero : Bool := false) : Res Cause (Except Cause GoVal) :=
  (f64Round q negZero).bind fun r => ret (.flt .f64 r)

/-- `int(f)` for a whole `f` (Go `int` is 64 bits) -/
def intResult (n : Int) : Res Cause (Except Cause GoVal) :=
  if inInt64 n then ret (.int .int n) else .unmodelled "float→int conversion out of range is implementation-defined"

def badArgs : Res Cause (Except Cause GoVal) := .panic "filter called with arguments of the wrong type"

def ratAbs (q : Rat) : Rat := if q < 0 then -q else q

/-- `math.Abs` -/
def abs : FilterImpl
  | [.val (.flt .f64 a)] => ret (.flt .f64 (ratAbs a))
  | _ => badArgs

/-- `int(math.Ceil(a))` -/
def ceil : FilterImpl
  | [.val (.flt .f64 a)] => intResult a.ceil
  | _ => badArgs

/-- `int(math.Floor(a))` -/
def floor : FilterImpl
  | [.val (.flt .f64 a)] => intResult a.floor
  | _ => badArgs

def plus : FilterImpl
  | [.val (.flt .f64 a), .val (.flt .f64 b)] => fltResult (a + b)
  | _ => badArgs

def minus : FilterImpl
  | [.val (.flt .f64 a), .val (.flt .f64 b)] => fltResult (a - b)
  | _ => badArgs

def times : FilterImpl
  | [.val (.flt .f64 a), .val (.flt .f64 b)] => fltResult (a * b) (decide (a < 0) != decide (b < 0))
  | _ => badArgs

/-- `math.Mod(a, b)` for `b ≠ 0`: `a - b * trunc(a / b)`, the sign of the dividend; always exact -/
def ratMod (a b : Rat) : Rat := a - b * (ratTrunc (a / b) : Rat)

def modulo : FilterImpl
  | [.val (.flt .f64 a), .val (.flt .f64 b)] =>
    if b == 0 then retErr .divZero else
    let m := ratMod a b
    if roundF64 m != some m then .unmodelled "math.Mod: remainder not representable (impossible for float operands)"
    else if m == 0 && a < 0 then .unmodelled "float64: negative zero"
    else ret (.flt .f64 m)
  | _ => badArgs

/-- the integer branch of `divided_by`: `int64(a) / int64(q)`, truncating both the receiver and the
quotient toward zero, two's-complement wrap for `MinInt64 / -1` -/
def divInt (a : Rat) (q : Int) : Res Cause (Except Cause GoVal) :=
  -- Go evaluates `int64(a)` first, but a zero divisor is an error whatever that value is
  if q == 0 then retErr .divZero else
  (floatToInt64 a).bind fun n => ret (.int .i64 (wrapInt64 (Int.tdiv n q)))

def divFloat (a q : Rat) : Res Cause (Except Cause GoVal) :=
  if q == 0 then retErr .divZero else fltResult (a / q) (decide (a < 0) != decide (q < 0))

/-- `divided_by` switches on the divisor's dynamic type -/
def dividedBy : FilterImpl
  | [.val (.flt .f64 a), .val b] =>
    match b with
    | .int _ q => divInt a q           -- every integer kind (uint/uint64 after D14); q fits its kind
    | .flt _ q => divFloat a q
    | _ => retErr (.other "invalid divisor")
  | _ => badArgs

/-- `math.Pow10(n)`, as `math/pow10.go` computes it from its tables of correctly rounded
constants: `pow10postab32[n/32] * pow10tab[n%32]` for `0 ≤ n ≤ 308`,
`pow10negtab32[-n/32] / pow10tab[-n%32]` for `-323 ≤ n ≤ 0`. For `0 ≤ n ≤ 22` the power of ten is
itself a float64 and the result is exact. `n > 308` is +Inf and `n < -323` is 0 (the filter then
produces NaN): `unmodelled`. -/
def pow10Go (n : Int) : Res Cause Rat :=
  let c (k : Nat) : Option Rat := roundF64 ((10 ^ k : Nat) : Rat)          -- the literal 1e<k>
  let cneg (k : Nat) : Option Rat := roundF64 (mkRat 1 (10 ^ k))          -- the literal 1e-<k>
  if 0 ≤ n && n ≤ 22 then .ok ((10 ^ n.toNat : Nat) : Rat)
  else if 0 ≤ n && n ≤ 308 then
    match c (32 * (n.toNat / 32)), c (n.toNat % 32) with
    | some a, some b => f64Round (a * b)
    | _, _ => .unmodelled "math.Pow10"
  else if -323 ≤ n && n < 0 then
    let m := (-n).toNat
    match cneg (32 * (m / 32)), c (m % 32) with
    | some a, some b => f64Round (a / b)
    | _, _ => .unmodelled "math.Pow10"
  else .unmodelled "math.Pow10: +Inf or 0 scale (the filter yields NaN)"

/-- `math.Floor(n*exp+0.5) / exp`, each operation rounded as Go rounds it -/
def roundTo (n : Rat) (p : Int) : Res Cause (Except Cause GoVal) :=
  (pow10Go p).bind fun e =>
  if e == 0 then .unmodelled "round: zero scale" else
  (f64Round (n * e) (n < 0)).bind fun x =>
  (f64Round (x + mkRat 1 2)).bind fun y =>
  fltResult (((y.floor : Int) : Rat) / e)

def round : FilterImpl
  | [.val (.flt .f64 n), pl] =>
    (pl.call (.int .int 0)).bind fun
      | .int .int p => roundTo n p
      | _ => badArgs
  | _ => badArgs

/-! ## `default`, `size` -/

/-- `values.IsEmpty` (its argument is already a Liquid value here) -/
def isEmpty : GoVal → Bool
  | .str s => s.isEmpty
  | .bytes s => s.isEmpty
  | .slice _ xs => xs.isEmpty
  | .array _ xs => xs.isEmpty
  | .map _ _ kvs => kvs.isEmpty
  | .mapSlice kvs => kvs.isEmpty
  | .keyedMap kvs => kvs.isEmpty
  | .bool b => !b
  | _ => false

def default : FilterImpl
  | [.val v, .val d] =>
    let empty := match v with
      | .nil => true
      | .bool false => true
      | w => isEmpty w.toLiquid
    ret (if empty then d else v)
  | _ => badArgs

/-- `Range.Len` (after the D6 repair): `e - b + 1`, 0 when `e < b`, saturating at the largest `int` -/
def rangeLen (a b : Int) : Int :=
  if b < a then 0 else if b - a ≥ maxInt64 then maxInt64 else b - a + 1

/-- `values.Length` (after `fixes/size-of-range`: a range has the length of its items) -/
def size : FilterImpl
  | [.val v] =>
    match v.toLiquid with
    | .range a b => ret (.int .int (rangeLen a b))
    | .slice _ xs => ret (.int .int xs.length)
    | .array _ xs => ret (.int .int xs.length)
    | .bytes s => ret (.int .int s.length)
    | .mapSlice kvs => ret (.int .int kvs.length)
    | .str s => ret (.int .int (decodeRunes s).length)
    | _ => ret (.int .int 0)
  | _ => badArgs

def bn (s : String) : Bytes := s.toUTF8.toList

/-- the implementations this file contributes to the filter table -/
def impls : List (Bytes × FilterImpl) := [
  (bn "abs", abs), (bn "ceil", ceil), (bn "floor", floor), (bn "plus", plus), (bn "minus", minus),
  (bn "times", times), (bn "modulo", modulo), (bn "divided_by", dividedBy), (bn "round", round),
  (bn "default", default), (bn "size", size)]

end Num
