import Liquid.Value
import Liquid.Utf8
import Liquid.Unicode
/-!
# String filters (`filters/standard_filters.go`, after the `fix:` patches D2, D3, D16)

Pure models on `Bytes` first (namespace `StrF`), then one wrapper per filter.

## Wrapper argument shapes (`fooF : List GoVal → Res Cause GoVal`)

The wrappers take the arguments **after** `values.Call`'s conversion (receiver first):
the receiver and every string parameter as `GoVal.str`, every `int` parameter as
`GoVal.int .int`.  Trailing arguments may be absent: an absent plain parameter is Go's zero value
(`""`, `0`), an absent default-function parameter (`func(int) int`, `func(string) string`) is the
documented default.  More arguments than parameters is `Res.err .parity`
(`*values.CallParityError`).  Any other shape (unconverted receivers, wrong kinds) is
`Res.unmodelled` — converting is the business of the generic call glue.

| filter                                   | shape (after the receiver `str s`)             | result     |
|------------------------------------------|-------------------------------------------------|------------|
| `append`, `prepend`                      | `[str x]` (absent ⇒ `""`)                       | `str`      |
| `capitalize` `downcase` `upcase` `escape_once` | `[]` or `[str _]` (second parameter unused) | `str`      |
| `escape` `newline_to_br` `strip_html` `strip_newlines` `strip` `lstrip` `rstrip` `url_encode` | `[]` | `str` |
| `url_decode`                             | `[]`                                            | `str` or `err (.other "urlescape")` |
| `remove`, `remove_first`                 | `[str old]`                                     | `str`      |
| `replace`, `replace_first`               | `[str old, str new]`                            | `str`      |
| `slice`                                  | `[int start, int length]` (length absent ⇒ 1)   | `str`      |
| `split`                                  | `[str sep]`                                     | `slice .str` of `str` (`[]string`) |
| `truncate`                               | `[int n, str ellipsis]` (absent ⇒ 50, `"..."`)  | `str`      |
| `truncatewords`                          | `[int n, str ellipsis]` (absent ⇒ 15, `"..."`)  | `str`      |
| `size` (`values.Length`, takes `any`)    | `[]`; receiver `str` ⇒ rune count, slice/array ⇒ length, else 0 | `int .int` |

`StrF.apply name args` dispatches on the filter name; `StrF.recvToString` is the receiver
conversion (`nil ⇒ ""`, ints and bools ⇒ what `fmt.Sprint` prints) used by the `strfv` driver op.

Outside the model (`unmodelled`): named HTML entities other than `amp lt gt quot apos` (Go's 2231-entry
table is not reproduced). Case mapping is total: `Liquid/Unicode.lean` looks every rune up in the tables
translator T6 regenerates from the toolchain's `unicode.ToUpper` / `ToLower`.
-/

namespace StrF

/-! ## concatenation -/

def append (s suffix : Bytes) : Bytes := s ++ suffix
def prepend (s pre : Bytes) : Bytes := pre ++ s

/-! ## case (`strings.ToUpper`, `strings.ToLower`)

`strings.ToUpper(s)` (go1.23 `strings/strings.go`) first scans the bytes. If **every** byte is below 0x80 it
takes a byte loop (`'a'..'z'` minus 32, the rest copied) — on such a string that is the rune map below, since
`unicode.ToUpper` moves no other ASCII rune (`upcase_ascii`). A string with a byte ≥ 0x80 anywhere — an invalid
byte included — never takes that loop: it goes to `strings.Map(unicode.ToUpper, s)`, which ranges over the runes
of `s` (an invalid byte reads as U+FFFD, width 1), keeps the input while nothing changes and from the first
change on writes `mapping(c)` with `WriteRune`; an invalid byte counts as a change (`c == RuneError` and the
width is 1) and is written as the three bytes of U+FFFD. Both paths together are: decode, map every rune, encode.
`ToLower` is the same with `'A'..'Z'` plus 32. -/

def mapRunesM (f : Rune → Option Rune) : List Rune → Option (List Rune)
  | [] => some []
  | r :: rs =>
    match f r, mapRunesM f rs with
    | some a, some as => some (a :: as)
    | _, _ => none

/-- `strings.ToUpper`. The `Option` is historical (the case table used to be partial): the answer is `some` for
every string (`upcase_total`, `Proofs/C16.lean`), namely `some (upcaseT s)`. -/
def upcase (s : Bytes) : Option Bytes := (mapRunesM upperRune (decodeRunes s)).map encodeRunes
/-- `strings.ToLower`; `some (downcaseT s)` for every string -/
def downcase (s : Bytes) : Option Bytes := (mapRunesM lowerRune (decodeRunes s)).map encodeRunes

/-- `strings.ToUpper` as a total function -/
def upcaseT (s : Bytes) : Bytes := encodeRunes ((decodeRunes s).map toUpperRune)
/-- `strings.ToLower` as a total function -/
def downcaseT (s : Bytes) : Bytes := encodeRunes ((decodeRunes s).map toLowerRune)

/-- fixed code (D16): `_, w := utf8.DecodeRuneInString(s); strings.ToUpper(s[:w]) + s[w:]` — the first rune is
*upper*-cased (`unicode.ToUpper`, not `ToTitle`: `ǆ` becomes `Ǆ`, not `ǅ`), an invalid first byte becomes U+FFFD,
the rest of the bytes is copied. `some` for every string (`capitalize_total`). -/
def capitalize (s : Bytes) : Option Bytes :=
  match s with
  | [] => some []
  | _ :: _ =>
    let (r, w) := decodeRune s
    (upperRune r).map fun u => encodeRune u ++ s.drop w

/-! ## HTML escaping -/

/-- `html.EscapeString` on one byte -/
def escapeByte (b : UInt8) : Bytes :=
  if b == 38 then [38, 97, 109, 112, 59]        -- &amp;
  else if b == 39 then [38, 35, 51, 57, 59]     -- &#39;
  else if b == 60 then [38, 108, 116, 59]       -- &lt;
  else if b == 62 then [38, 103, 116, 59]       -- &gt;
  else if b == 34 then [38, 35, 51, 52, 59]     -- &#34;
  else [b]

def escape : Bytes → Bytes
  | [] => []
  | b :: rest => escapeByte b ++ escape rest

/-- int32 wrap-around (`x` in `unescapeEntity` is a `rune`) -/
def wrap32 (x : Int) : Int := (x + 2147483648) % 4294967296 - 2147483648

def digitOf (hex : Bool) (c : UInt8) : Option Int :=
  if 48 ≤ c && c ≤ 57 then some (c.toNat - 48 : Int)
  else if hex && 97 ≤ c && c ≤ 102 then some (c.toNat - 97 + 10 : Int)
  else if hex && 65 ≤ c && c ≤ 70 then some (c.toNat - 65 + 10 : Int)
  else none

/-- the digit loop of `unescapeEntity`: value so far, index `i` into `s`, remaining bytes -/
def scanNum (hex : Bool) : Int → Nat → Bytes → Int × Nat
  | x, i, [] => (x, i)
  | x, i, c :: cs =>
    match digitOf hex c with
    | some d => scanNum hex (wrap32 ((if hex then 16 else 10) * x + d)) (i + 1) cs
    | none => if c == 59 then (x, i + 1) else (x, i)

/-- `replacementTable` (Windows-1252) -/
def win1252 : Nat → Rune
  | 0 => 0x20AC | 1 => 0x81 | 2 => 0x201A | 3 => 0x192 | 4 => 0x201E | 5 => 0x2026 | 6 => 0x2020
  | 7 => 0x2021 | 8 => 0x2C6 | 9 => 0x2030 | 10 => 0x160 | 11 => 0x2039 | 12 => 0x152 | 13 => 0x8D
  | 14 => 0x17D | 15 => 0x8F | 16 => 0x90 | 17 => 0x2018 | 18 => 0x2019 | 19 => 0x201C | 20 => 0x201D
  | 21 => 0x2022 | 22 => 0x2013 | 23 => 0x2014 | 24 => 0x2DC | 25 => 0x2122 | 26 => 0x161 | 27 => 0x203A
  | 28 => 0x153 | 29 => 0x9D | 30 => 0x17E | 31 => 0x178
  | _ => 0xFFFD

/-- the rune a numeric character reference stands for (a negative value reaches
    `utf8.EncodeRune`, which writes U+FFFD) -/
def numRune (x : Int) : Rune :=
  if 0x80 ≤ x ∧ x ≤ 0x9F then win1252 (x - 0x80).toNat
  else if x ≤ 0 ∨ (0xD800 ≤ x ∧ x ≤ 0xDFFF) ∨ x > 0x10FFFF then 0xFFFD
  else x.toNat

def isAlnum (c : UInt8) : Bool := (97 ≤ c && c ≤ 122) || (65 ≤ c && c ≤ 90) || (48 ≤ c && c ≤ 57)

/-- the entity name after `&`: the alphanumeric run and one optional `;` -/
def scanName : Bytes → Bytes
  | [] => []
  | c :: cs => if isAlnum c then c :: scanName cs else if c == 59 then [59] else []

/-- the modelled part of Go's `entity` table -/
def entityLookup (name : Bytes) : Option Rune :=
  if name = [97, 109, 112, 59] ∨ name = [97, 109, 112] ∨ name = [65, 77, 80, 59] ∨ name = [65, 77, 80] then some 38
  else if name = [108, 116, 59] ∨ name = [108, 116] ∨ name = [76, 84, 59] ∨ name = [76, 84] then some 60
  else if name = [103, 116, 59] ∨ name = [103, 116] ∨ name = [71, 84, 59] ∨ name = [71, 84] then some 62
  else if name = [113, 117, 111, 116, 59] ∨ name = [113, 117, 111, 116] ∨ name = [81, 85, 79, 84, 59] ∨ name = [81, 85, 79, 84] then some 34
  else if name = [97, 112, 111, 115, 59] then some 39
  else none

/-- number of alphanumeric bytes of an entity name -/
def nameAlnums (name : Bytes) : Nat := (name.filter isAlnum).length

/-- `unescapeEntity` on the bytes after an `&`: the bytes written and the number of source bytes
    consumed (the `&` included); `none` = a named entity outside the modelled table -/
def unescapeEntity (rest : Bytes) : Option (Bytes × Nat) :=
  match rest with
  | [] => some ([38], 1)
  | 35 :: r2 =>
    if rest.length + 1 ≤ 3 then some ([38], 1) else
    match r2 with
    | [] => some ([38], 1)
    | c :: r3 =>
      let xi := if c == 120 || c == 88 then scanNum true 0 3 r3 else scanNum false 0 2 r2
      if xi.2 ≤ 3 then some ([38], 1) else some (encodeRune (numRune xi.1), xi.2)
  | _ :: _ =>
    let name := scanName rest
    if name.isEmpty then some ([38], 1)
    else match entityLookup name with
      | some r => some (encodeRune r, 1 + name.length)
      | none =>
        -- no table entry has a one-letter name; of the two-letter names without `;` only
        -- lt gt LT GT exist (matched above); the prefix search needs three letters
        if nameAlnums name ≤ 1 || (nameAlnums name == 2 && name.length == 2) then some (38 :: name, 1 + name.length)
        else none

/-- `html.UnescapeString`; fuel = length -/
def unescapeAux : Nat → Bytes → Option Bytes
  | 0, _ => some []
  | _, [] => some []
  | n + 1, b :: rest =>
    if b == 38 then
      match unescapeEntity rest with
      | none => none
      | some (out, k) => (unescapeAux n (rest.drop (k - 1))).map (out ++ ·)
    else (unescapeAux n rest).map (b :: ·)

def unescape (s : Bytes) : Option Bytes := unescapeAux s.length s

/-- `html.EscapeString(html.UnescapeString(s))` -/
def escapeOnce (s : Bytes) : Option Bytes := (unescape s).map escape

/-! ## replacement (`strings.Replace`, `strings.ReplaceAll`) -/

/-- `strings.Index` -/
def indexOf (pat : Bytes) : Bytes → Option Nat
  | [] => if pat.isEmpty then some 0 else none
  | b :: rest => if isPrefixOfB pat (b :: rest) then some 0 else (indexOf pat rest).map (· + 1)

/-- the replacement loop for a non-empty `old`; fuel = length -/
def replaceNE (old new : Bytes) : Nat → Bytes → Bytes
  | 0, s => s
  | f + 1, s =>
    match indexOf old s with
    | none => s
    | some i => s.take i ++ new ++ replaceNE old new f (s.drop (i + old.length))

/-- the UTF-8 sequences of `s` (`strings.explode`): an invalid byte is a piece of its own -/
def runeChunksAux : Nat → Bytes → List Bytes
  | 0, _ => []
  | _, [] => []
  | n + 1, b :: rest =>
    let w := max (decodeRune (b :: rest)).2 1
    (b :: rest).take w :: runeChunksAux n ((b :: rest).drop w)

def runeChunks (s : Bytes) : List Bytes := runeChunksAux s.length s

/-- the empty-pattern rule: `new` before every UTF-8 sequence and at the end -/
def insertAround (new : Bytes) (s : Bytes) : Bytes :=
  new ++ ((runeChunks s).map (· ++ new)).flatten

/-- `strings.ReplaceAll(s, old, new)` -/
def replace (s old new : Bytes) : Bytes :=
  if old = new then s
  else if old.isEmpty then insertAround new s
  else replaceNE old new s.length s

/-- `strings.Replace(s, old, new, 1)` -/
def replaceFirst (s old new : Bytes) : Bytes :=
  if old = new then s
  else match indexOf old s with
    | none => s
    | some i => s.take i ++ new ++ s.drop (i + old.length)

def remove (s old : Bytes) : Bytes := replace s old []
def removeFirst (s old : Bytes) : Bytes := replaceFirst s old []

def newlineToBr : Bytes → Bytes
  | [] => []
  | b :: rest => (if b == 10 then [60, 98, 114, 32, 47, 62] else [b]) ++ newlineToBr rest

def stripNewlines (s : Bytes) : Bytes := s.filter (· != 10)

/-! ## split / join -/

/-- `[[:space:]]` -/
def isAsciiSpace (b : UInt8) : Bool := b == 32 || (9 ≤ b && b ≤ 13)

/-- `strings.Split` for a non-empty separator; fuel = length -/
def splitNE (sep : Bytes) : Nat → Bytes → List Bytes
  | 0, s => [s]
  | f + 1, s =>
    match indexOf sep s with
    | none => [s]
    | some i => s.take i :: splitNE sep f (s.drop (i + sep.length))

/-- `regexp.MustCompile("[[:space:]]+").Split(s, -1)`: pieces between maximal white-space runs
    (a leading run gives a leading empty piece, a trailing run a trailing one; `""` gives `[""]`) -/
def splitWSGo : Bool → Bytes → Bytes → List Bytes
  | _, cur, [] => [cur.reverse]
  | inRun, cur, b :: rest =>
    if isAsciiSpace b then
      (if inRun then splitWSGo true cur rest else cur.reverse :: splitWSGo true [] rest)
    else splitWSGo false (b :: cur) rest

def splitWS (s : Bytes) : List Bytes := splitWSGo false [] s

/-- `for len(result) > 0 && result[len(result)-1] == "" { result = result[:len(result)-1] }` -/
def dropTrailingEmpty (ps : List Bytes) : List Bytes := (ps.reverse.dropWhile (·.isEmpty)).reverse

def splitRaw (s sep : Bytes) : List Bytes :=
  if sep = [32] then splitWS s
  else if sep.isEmpty then runeChunks s
  else splitNE sep s.length s

/-- the `split` filter -/
def split (s sep : Bytes) : List Bytes := dropTrailingEmpty (splitRaw s sep)

/-- `strings.Join` (the `join` filter on a list of strings) -/
def join (sep : Bytes) : List Bytes → Bytes
  | [] => []
  | [p] => p
  | p :: q :: ps => p ++ sep ++ join sep (q :: ps)

/-! ## strip_html: `regexp.MustCompile("<.*?>").ReplaceAllString(s, "")` (`.` does not match `\n`) -/

/-- what follows the first `>` if it comes before any newline -/
def findClose : Bytes → Option Bytes
  | [] => none
  | b :: rest => if b == 62 then some rest else if b == 10 then none else findClose rest

theorem findClose_length {s t : Bytes} (h : findClose s = some t) : t.length < s.length := by
  induction s with
  | nil => simp [findClose] at h
  | cons b rest ih =>
    simp only [findClose] at h
    split at h
    · cases h; simp
    · split at h
      · cases h
      · have := ih h; simp; omega

def stripHtmlAux : Nat → Bytes → Bytes
  | 0, s => s
  | _, [] => []
  | n + 1, b :: rest =>
    if b == 60 then
      match findClose rest with
      | some after => stripHtmlAux n after
      | none => b :: stripHtmlAux n rest
    else b :: stripHtmlAux n rest

def stripHtml (s : Bytes) : Bytes := stripHtmlAux s.length s

/-! ## white space -/

def lstrip (s : Bytes) : Bytes := trimLeftSpace s
def rstrip (s : Bytes) : Bytes := trimRightSpace s
/-- `strings.TrimSpace` -/
def strip (s : Bytes) : Bytes := trimRightSpace (trimLeftSpace s)

/-! ## size, slice, truncate, truncatewords -/

/-- `utf8.RuneCountInString`; fuel = length -/
def runeCountAux : Nat → Bytes → Nat
  | 0, _ => 0
  | _, [] => 0
  | n + 1, b :: rest => 1 + runeCountAux n ((b :: rest).drop (max (decodeRune (b :: rest)).2 1))

def size (s : Bytes) : Nat := runeCountAux s.length s

/-- fixed code (D2); `n` is `length(1)` -/
def slice (s : Bytes) (start n : Int) : Bytes :=
  if s.isEmpty then [] else
  let ss := decodeRunes s
  let len : Int := ss.length
  let st := if start < 0 then len + start else start
  if st < 0 ∨ st > len ∨ n < 0 then []
  else
    let m := if n > len - st then len - st else n
    encodeRunes ((ss.drop st.toNat).take m.toNat)

/-- fixed code (D3) -/
def truncate (s : Bytes) (n : Int) (el : Bytes) : Bytes :=
  let rs := decodeRunes s
  if (rs.length : Int) ≤ n then s
  else
    let k : Int := (decodeRunes el).length
    let keep : Nat := if n > k then (n - k).toNat else 0
    encodeRunes (rs.take keep) ++ el

/-- the white space of the fixed `truncatewords` (Go regexp `\s`) -/
def isWordSpace (c : UInt8) : Bool := c == 32 || c == 9 || c == 10 || c == 12 || c == 13

/-- the text up to the end of the `n`-th word when a further word follows; `none` when `s` has at
    most `n` words -/
def twKeep : Nat → Bytes → Option Bytes
  | n, s =>
    let ws := s.takeWhile isWordSpace
    let s1 := s.dropWhile isWordSpace
    if s1.isEmpty then none
    else match n with
      | 0 => some []
      | n + 1 =>
        let w := s1.takeWhile (fun c => !isWordSpace c)
        (twKeep n (s1.dropWhile (fun c => !isWordSpace c))).map fun k => ws ++ w ++ k

/-- fixed code (D3) -/
def truncatewords (s : Bytes) (n : Int) (el : Bytes) : Bytes :=
  let n' : Nat := if n < 1 then 1 else n.toNat
  match twKeep n' s with
  | none => s
  | some k => k ++ el

/-! ## URL escaping (`url.QueryEscape`, `url.QueryUnescape`) -/

def urlUnreserved (c : UInt8) : Bool := isAlnum c || c == 45 || c == 95 || c == 46 || c == 126

/-- `"0123456789ABCDEF"[n]` for `n < 16` -/
def upperHexDigit (n : UInt8) : UInt8 := if n < 10 then 48 + n else 55 + n

def urlEncodeByte (c : UInt8) : Bytes :=
  if c == 32 then [43]
  else if urlUnreserved c then [c]
  else [37, upperHexDigit (c / 16), upperHexDigit (c % 16)]

def urlEncode : Bytes → Bytes
  | [] => []
  | c :: rest => urlEncodeByte c ++ urlEncode rest

def unhex (c : UInt8) : Option UInt8 :=
  if 48 ≤ c && c ≤ 57 then some (c - 48)
  else if 97 ≤ c && c ≤ 102 then some (c - 97 + 10)
  else if 65 ≤ c && c ≤ 70 then some (c - 65 + 10)
  else none

/-- `none` = `url.EscapeError` -/
def urlDecode : Bytes → Option Bytes
  | [] => some []
  | 37 :: a :: b :: rest =>
    match unhex a, unhex b with
    | some x, some y => (urlDecode rest).map ((x * 16 + y) :: ·)
    | _, _ => none
  | 37 :: _ => none
  | c :: rest => (urlDecode rest).map ((if c == 43 then 32 else c) :: ·)

/-! ## wrappers -/

def threeDots : Bytes := [46, 46, 46]

def optToRes (what : String) : Option Bytes → Res Cause GoVal
  | some b => .ok (.str b)
  | none => .unmodelled what

def badShape : Res Cause GoVal := .unmodelled "strf: argument shape"

/-- one string parameter, absent ⇒ `""` -/
def str1 (f : Bytes → Bytes → Bytes) : List GoVal → Res Cause GoVal
  | [.str s] => .ok (.str (f s []))
  | [.str s, .str x] => .ok (.str (f s x))
  | _ :: _ :: _ :: _ => .err .parity
  | _ => badShape

/-- no parameter -/
def str0 (f : Bytes → Res Cause GoVal) : List GoVal → Res Cause GoVal
  | [.str s] => f s
  | _ :: _ :: _ => .err .parity
  | _ => badShape

/-- an unused second string parameter -/
def str0u (f : Bytes → Res Cause GoVal) : List GoVal → Res Cause GoVal
  | [.str s] => f s
  | [.str s, .str _] => f s
  | _ :: _ :: _ :: _ => .err .parity
  | _ => badShape

def appendF := str1 append
def prependF := str1 prepend
def removeF := str1 remove
def removeFirstF := str1 removeFirst
def capitalizeF := str0u fun s => optToRes "case table" (capitalize s)
def downcaseF := str0u fun s => optToRes "case table" (downcase s)
def upcaseF := str0u fun s => optToRes "case table" (upcase s)
def escapeOnceF := str0u fun s => optToRes "html entity table" (escapeOnce s)
def escapeF := str0 fun s => .ok (.str (escape s))
def newlineToBrF := str0 fun s => .ok (.str (newlineToBr s))
def stripHtmlF := str0 fun s => .ok (.str (stripHtml s))
def stripNewlinesF := str0 fun s => .ok (.str (stripNewlines s))
def stripF := str0 fun s => .ok (.str (strip s))
def lstripF := str0 fun s => .ok (.str (lstrip s))
def rstripF := str0 fun s => .ok (.str (rstrip s))
def urlEncodeF := str0 fun s => .ok (.str (urlEncode s))
def urlDecodeF := str0 fun s =>
  match urlDecode s with
  | some b => .ok (.str b)
  | none => .err (.other "urlescape")

def replaceWith (f : Bytes → Bytes → Bytes → Bytes) : List GoVal → Res Cause GoVal
  | [.str s] => .ok (.str (f s [] []))
  | [.str s, .str o] => .ok (.str (f s o []))
  | [.str s, .str o, .str n] => .ok (.str (f s o n))
  | _ :: _ :: _ :: _ :: _ => .err .parity
  | _ => badShape

def replaceF := replaceWith replace
def replaceFirstF := replaceWith replaceFirst

def sliceF : List GoVal → Res Cause GoVal
  | [.str s] => .ok (.str (slice s 0 1))
  | [.str s, .int .int st] => .ok (.str (slice s st 1))
  | [.str s, .int .int st, .int .int n] => .ok (.str (slice s st n))
  | _ :: _ :: _ :: _ :: _ => .err .parity
  | _ => badShape

def splitF : List GoVal → Res Cause GoVal
  | [.str s] => .ok (.slice .str ((split s []).map .str))
  | [.str s, .str sep] => .ok (.slice .str ((split s sep).map .str))
  | _ :: _ :: _ :: _ => .err .parity
  | _ => badShape

def truncWith (f : Bytes → Int → Bytes → Bytes) (dflt : Int) : List GoVal → Res Cause GoVal
  | [.str s] => .ok (.str (f s dflt threeDots))
  | [.str s, .int .int n] => .ok (.str (f s n threeDots))
  | [.str s, .int .int n, .str el] => .ok (.str (f s n el))
  | _ :: _ :: _ :: _ :: _ => .err .parity
  | _ => badShape

def truncateF := truncWith truncate 50
def truncatewordsF := truncWith truncatewords 15

/-- `values.Length` (receiver already passed through `ToLiquid`) -/
def sizeF : List GoVal → Res Cause GoVal
  | [.str s] => .ok (.int .int (size s))
  | [.slice _ xs] => .ok (.int .int xs.length)
  | [.array _ xs] => .ok (.int .int xs.length)
  | [_] => .ok (.int .int 0)
  | _ :: _ :: _ => .err .parity
  | [] => badShape

/-- the string filters by name -/
def table : List (String × (List GoVal → Res Cause GoVal)) := [
  ("append", appendF), ("prepend", prependF), ("capitalize", capitalizeF), ("downcase", downcaseF),
  ("upcase", upcaseF), ("escape", escapeF), ("escape_once", escapeOnceF), ("newline_to_br", newlineToBrF),
  ("remove", removeF), ("remove_first", removeFirstF), ("replace", replaceF), ("replace_first", replaceFirstF),
  ("slice", sliceF), ("split", splitF), ("strip_html", stripHtmlF), ("strip_newlines", stripNewlinesF),
  ("strip", stripF), ("lstrip", lstripF), ("rstrip", rstripF), ("truncate", truncateF),
  ("truncatewords", truncatewordsF), ("url_encode", urlEncodeF), ("url_decode", urlDecodeF), ("size", sizeF)]

def apply (name : String) (args : List GoVal) : Res Cause GoVal :=
  match table.lookup name with
  | some f => f args
  | none => .unmodelled "strf: not a string filter"

/-! ## receiver conversion (`values.Convert` to `string`: `fmt.Sprint`; a nil argument is the
zero value) -/

def natDigits (n : Nat) : Bytes := (Nat.toDigits 10 n).map fun c => c.toNat.toUInt8

def intToBytes (n : Int) : Bytes :=
  if n < 0 then 45 :: natDigits n.natAbs else natDigits n.natAbs

/-- the text a non-string receiver is converted to; `none` = not modelled here (floats,
    containers, …) -/
def recvToString : GoVal → Option Bytes
  | .nil => some []
  | .str s => some s
  | .bool true => some [116, 114, 117, 101]
  | .bool false => some [102, 97, 108, 115, 101]
  | .int _ n => some (intToBytes n)
  | _ => none

/-! ## driver ops `strf`, `strfv`, `strfsj` (line protocol) -/

def showCause : Cause → String
  | .parity => "filter:parity"
  | .other _ => "filter:other"
  | .typeErr => "type"
  | _ => "other"

def showRes : Res Cause GoVal → String
  | .ok v => "ok " ++ v.enc
  | .err c => "err " ++ showCause c
  | .panic _ => "panic"
  | .unmodelled w => "unmodelled " ++ w

def nameOf (hex : String) : String := String.ofList ((hexDecode hex).map fun b => Char.ofNat b.toNat)

def parseArgs : List String → Option (List GoVal)
  | [] => some []
  | a :: as =>
    match GoVal.parse a, parseArgs as with
    | some v, some vs => some (v :: vs)
    | _, _ => none

/-- `strf <namehex> <recvhex> <arg-enc>*` : string receiver -/
def runStrf (name recv : String) (args : List String) : String :=
  match parseArgs args with
  | none => "unmodelled parse"
  | some vs => showRes (apply (nameOf name) (.str (hexDecode recv) :: vs))

/-- `strfv <namehex> <recv-enc> <arg-enc>*` : any receiver, converted as `values.Call` does -/
def runStrfv (name recv : String) (args : List String) : String :=
  match GoVal.parse recv, parseArgs args with
  | some v, some vs =>
    if nameOf name == "size" then showRes (apply "size" (v.toLiquid :: vs))
    else match recvToString v with
      | some s => showRes (apply (nameOf name) (.str s :: vs))
      | none => "unmodelled receiver conversion"
  | _, _ => "unmodelled parse"

/-- `strfsj <recvhex> <sephex>` : `x | split: sep | join: sep` -/
def runStrfsj (recv sep : String) : String :=
  "ok " ++ (GoVal.str (join (hexDecode sep) (split (hexDecode recv) (hexDecode sep)))).enc

end StrF
