import Liquid.Convert
/-!
# The filter call layer: `expressions.ApplyFilter` + `values.Call` (DESIGN §4.3, A.7)

## Interface for filter models (everything a `Filters/*.lean` file needs)

```
inductive Param    | val (t : ParamTy) | fn (t : ParamTy)          -- `T`  |  default-function `func(T) T`
structure FilterSig  (name : Bytes) (params : List Param) (hasErr : Bool)   -- params.head = the receiver
def stdFilters : List FilterSig                                    -- every filter of AddStandardFilters

inductive Arg      | val (v : GoVal) | fn (c : Option (Res Cause GoVal))
abbrev FilterImpl := List Arg → Res Cause (Except Cause GoVal)
def applyFilter (impls : Bytes → Option FilterImpl) (name : Bytes) (recv : GoVal) (args : List GoVal) : Res Cause GoVal
```

A `FilterImpl` is the Go function body. It receives one `Arg` per *parameter* (receiver first,
always exactly `params.length` of them), already converted by `values.Call`:

* `Arg.val v` — `v` has the parameter's type: the converted argument, or the type's zero value when
  the argument was `nil` or absent;
* `Arg.fn none` — a default-function parameter without an argument: the identity function;
  `Arg.fn (some r)` — the constant function returning the argument converted to `T`; the
  conversion is *lazy* in Go (it runs, and may panic with a `TypeError`, only when the filter calls
  the function), so `r` is the unevaluated `Res`. Use `Arg.call a dflt` for the Go call `f(dflt)`.

and returns

* `.ok (.ok v)`       — the Go function returned `v` (and a nil error),
* `.ok (.error c)`    — it returned a non-nil `error` (second result) with cause `c`,
* `.err c`            — it panicked with a value `Evaluate` recovers as an error (`values.TypeError`
                         from `MustConvert…`, `InterpreterError`): *not* wrapped in a `FilterError`,
* `.panic` / `.unmodelled` as everywhere.

Helpers: `ret v`, `retErr c`, and `FilterImpl.ofEager` (adapter for bodies of type
`List GoVal → Res Cause GoVal`). A file that implements filters exports a
`List (Bytes × FilterImpl)`; `Driver.lean` concatenates these lists (`lookupImpl`).

## What `applyFilter` does, in the order of the Go code

1. unknown name ⇒ `panic(UndefinedFilter(name))`, recovered ⇒ `err (undefinedFilter name)`;
2. `values.Call`: more arguments (receiver included) than parameters ⇒ `CallParityError`, returned
   by `ApplyFilter` and therefore wrapped by `makeFilter` ⇒ `err (filterErr name parity)`;
3. arguments left to right: default-function parameter ⇒ constant function (even for a `nil`
   argument); `nil` argument ⇒ zero value; otherwise `MustConvert` — failure is
   `panic(TypeError)` ⇒ `err typeErr` (not wrapped);
4. missing arguments ⇒ zero values / identity functions;
5. the call; a returned error ⇒ `err (filterErr name c)`;
6. a `[]byte` result becomes a `string`.

`viaValue` models `values.ValueOf(x).Interface()`, which the expression evaluator applies to
every variable it reads and to every filter result (`makeFilter`): drops are resolved
(recursively), a pointer that does not point to a struct is dereferenced, a nil pointer is nil.
`evalFilter` = `viaValue` on receiver and arguments, `applyFilter`, `viaValue` on the result: the
meaning of the expression `x | name: a0, a1` with `x`, `a0`, `a1` bound to the given values.

Not modelled: filters that take an `expressions.Closure` parameter (none of the standard
filters does), variadic filters (none).
-/

inductive Param where
  | val (t : ParamTy)
  | fn (t : ParamTy)
  deriving Repr, DecidableEq, Inhabited

structure FilterSig where
  name : Bytes
  params : List Param
  hasErr : Bool := false
  deriving Repr, DecidableEq

inductive Arg where
  | val (v : GoVal)
  | fn (c : Option (Res Cause GoVal))

abbrev FilterImpl := List Arg → Res Cause (Except Cause GoVal)

/-- the Go function returned `v` -/
def ret (v : GoVal) : Res Cause (Except Cause GoVal) := .ok (.ok v)
/-- the Go function returned a non-nil error -/
def retErr (c : Cause) : Res Cause (Except Cause GoVal) := .ok (.error c)

/-- the Go call `f(dflt)` of a default-function parameter -/
def Arg.call (a : Arg) (dflt : GoVal) : Res Cause GoVal :=
  match a with
  | .fn none => .ok dflt
  | .fn (some r) => r
  | .val v => .ok v

/-- Adapter for filter bodies written over plain values, `List GoVal → Res Cause GoVal`: the
arguments are the converted values, receiver first; a default-function parameter contributes its
constant (evaluated *eagerly* — a body that calls the function only on some paths, like `slice`,
must be written against `Arg` directly) and is *dropped* when absent (such parameters are always
last, so the body sees a shorter list and applies its own default). `returnsErr`: an `err c` of the
body is the Go function's returned error (`(T, error)` filters); otherwise it is a recovered panic. -/
def FilterImpl.ofEager (returnsErr : Bool) (f : List GoVal → Res Cause GoVal) : FilterImpl := fun args =>
  let rec collect : List Arg → Res Cause (List GoVal)
    | [] => .ok []
    | .val v :: r => (collect r).bind fun vs => .ok (v :: vs)
    | .fn none :: r => collect r
    | .fn (some c) :: r => c.bind fun v => (collect r).bind fun vs => .ok (v :: vs)
  (collect args).bind fun vs =>
    match f vs with
    | .ok v => ret v
    | .err c => if returnsErr then retErr c else .err c
    | .panic w => .panic w
    | .unmodelled w => .unmodelled w

/-! ## The registry of `filters.AddStandardFilters` -/

section
open Param ParamTy
private def sig (name : String) (params : List Param) (hasErr : Bool := false) : FilterSig :=
  { name := name.toUTF8.toList, params := params, hasErr := hasErr }

def stdFilters : List FilterSig := [
  -- value filters
  sig "default" [val any, val any],
  sig "json" [val any],
  -- array filters
  sig "compact" [val anys],
  sig "concat" [val anys, val anys],
  sig "join" [val anys, fn str],
  sig "map" [val anys, val str],
  sig "reverse" [val anys],
  sig "sort" [val anys, val any],
  sig "first" [val anys],
  sig "last" [val anys],
  sig "uniq" [val anys],
  -- date filters
  sig "date" [val time, fn str] true,
  -- number filters
  sig "abs" [val f64],
  sig "ceil" [val f64],
  sig "floor" [val f64],
  sig "modulo" [val f64, val f64] true,     -- after the D17 repair: (float64, error)
  sig "minus" [val f64, val f64],
  sig "plus" [val f64, val f64],
  sig "times" [val f64, val f64],
  sig "divided_by" [val f64, val any] true,
  sig "round" [val f64, fn int],
  -- sequence filters
  sig "size" [val any],
  -- string filters
  sig "append" [val str, val str],
  sig "capitalize" [val str, val str],
  sig "downcase" [val str, val str],
  sig "escape" [val str],
  sig "escape_once" [val str, val str],
  sig "newline_to_br" [val str],
  sig "prepend" [val str, val str],
  sig "remove" [val str, val str],
  sig "remove_first" [val str, val str],
  sig "replace" [val str, val str, val str],
  sig "replace_first" [val str, val str, val str],
  sig "sort_natural" [val anys, val any],
  sig "slice" [val str, val int, fn int],
  sig "split" [val str, val str],
  sig "strip_html" [val str],
  sig "strip_newlines" [val str],
  sig "strip" [val str],
  sig "lstrip" [val str],
  sig "rstrip" [val str],
  sig "truncate" [val str, fn int, fn str],
  sig "truncatewords" [val str, fn int, fn str],
  sig "upcase" [val str, val str],
  sig "url_encode" [val str],
  sig "url_decode" [val str] true,
  -- debugging filters
  sig "inspect" [val any],
  sig "type" [val any]
]
end

def lookupSig (name : Bytes) : Option FilterSig := stdFilters.find? (·.name == name)

/-- look a name up in an association list of implementations -/
def lookupImpl (table : List (Bytes × FilterImpl)) (name : Bytes) : Option FilterImpl :=
  (table.find? (·.1 == name)).map (·.2)

/-! ## `values.Call` -/

/-- `convertCallArguments`: one `Arg` per parameter. Precondition (checked by the caller):
`args.length ≤ params.length`. -/
def convertArgs : List Param → List GoVal → (budget : Int := 1000000) → Res Cause (List Arg)
  | [], _, _ => .ok []
  | .fn _ :: ps, [], n => (convertArgs ps [] n).bind fun r => .ok (.fn none :: r)
  | .val t :: ps, [], n => (convertArgs ps [] n).bind fun r => .ok (.val t.zero :: r)
  | .fn t :: ps, a :: as, n => (convertArgs ps as n).bind fun r => .ok (.fn (some (convert a t n)) :: r)
  | .val t :: ps, a :: as, n =>
    match a with
    | .nil => (convertArgs ps as n).bind fun r => .ok (.val t.zero :: r)
    | _ => (convert a t n).bind fun c => (convertArgs ps as n).bind fun r => .ok (.val c :: r)

/-- `ApplyFilter`'s result conversion -/
def bytesToString : GoVal → GoVal
  | .bytes s => .str s
  | v => v

def applyFilter (impls : Bytes → Option FilterImpl) (name : Bytes) (recv : GoVal) (args : List GoVal)
    (budget : Int := 1000000) : Res Cause GoVal :=
  match lookupSig name with
  | none => .err (.undefinedFilter name)
  | some sg =>
    if (recv :: args).length > sg.params.length then .err (.filterErr name .parity) else
    (convertArgs sg.params (recv :: args) budget).bind fun cargs =>
    match impls name with
    | none => .unmodelled "filter body not modelled"
    | some f =>
      (f cargs).bind fun
        | .error c => .err (.filterErr name c)
        | .ok v => .ok (bytesToString v)

/-! ## `values.ValueOf(x).Interface()` -/

def viaValue : GoVal → GoVal
  | .drop v => viaValue v
  | .nilPtr => .nil
  | .ptr (.drop v) => viaValue v              -- *T implements drop when T does
  | .ptr (.struct fs) => .ptr (.struct fs)    -- pointer to struct: structValue keeps the pointer
  | .ptr (.range a b) => .ptr (.range a b)
  | .ptr (.time u) => .ptr (.time u)
  | .ptr v => viaValue v
  | v => v

/-- the expression `x | name: a0, a1, …` evaluated with the variables bound to `recv`, `args` -/
def evalFilter (impls : Bytes → Option FilterImpl) (name : Bytes) (recv : GoVal) (args : List GoVal)
    (budget : Int := 1000000) : Res Cause GoVal :=
  (applyFilter impls name (viaValue recv) (args.map viaValue) budget).bind fun v => .ok (viaValue v)

/-! ## Canonical text of a cause (the `err <kind>` field of the line protocol; names omitted) -/

def Cause.kind : Cause → String
  | .syntax => "syntax"
  | .typeErr => "typeErr"
  | .interp => "interp"
  | .undefinedFilter _ => "undefinedFilter"
  | .filterErr _ inner => "filterErr:" ++ inner.kind
  | .parity => "parity"
  | .divZero => "divZero"
  | .io => "io"
  | .brk => "break"
  | .cont => "continue"
  | .other _ => "other"
  | .none => "none"
