/-!
# An abstract interleaving machine (DESIGN 4.8, property C04)

Threads are straight-line sequences of memory accesses over one shared store; a schedule
chooses which thread performs its next step. A location carries the *region* that owns it:

* `owner = none`   — the shared region: everything that exists before the goroutines start
  (engine configuration, compiled templates, binding values);
* `owner = some i` — allocated by thread `i` during its parse or render (variable map copy,
  output buffer, forloop record, cycle map, results of sort/reverse/concat …).

A step reads a location (the value read is appended to the thread's observations, so that
every later step and the final result depend on it), writes a location with a value computed
from the observations so far, or is a pure local computation appending to the observations.
The result of a thread is its list of observations.

There is no synchronisation primitive in the machine, so *any* two accesses to one location
by different threads, one of them a write, are a data race (`HasRace`); `sync.Once` of
`values.dropWrapper` is outside the machine (fact class `synchronised`, Go's `sync` trusted).
-/

namespace Conc

abbrev Tid := Nat
abbrev Val := Nat

structure Loc where
  owner : Option Tid
  addr : Nat
  deriving DecidableEq, Repr

abbrev Store := Loc → Val

def Store.set (σ : Store) (l : Loc) (v : Val) : Store :=
  fun l' => if l' = l then v else σ l'

inductive Step where
  /-- load `l`; the value is appended to the observations -/
  | read (l : Loc)
  /-- store at `l` a value computed from the observations so far -/
  | write (l : Loc) (f : List Val → Val)
  /-- local computation producing output -/
  | pure (f : List Val → Val)

/-- A thread is the sequence of steps of one `ParseTemplate` or `Render` call. -/
abbrev Thread := List Step

/-- Effect of one step on the store and on the executing thread's observations. -/
def Step.exec (s : Step) (σ : Store) (out : List Val) : Store × List Val :=
  match s with
  | .read l => (σ, out ++ [σ l])
  | .write l f => (σ.set l (f out), out)
  | .pure f => (σ, out ++ [f out])

structure Event where
  tid : Tid
  loc : Loc
  isWrite : Bool
  deriving DecidableEq, Repr

def Step.event (i : Tid) : Step → Option Event
  | .read l => some ⟨i, l, false⟩
  | .write l _ => some ⟨i, l, true⟩
  | .pure _ => none

/-- Thread state: the steps still to run and the observations made so far. -/
structure TState where
  rest : List Step
  out : List Val

structure Config where
  store : Store
  threads : List TState
  /-- memory accesses performed so far, oldest first -/
  trace : List Event

/-- Thread `i` performs its next step (no effect when `i` names no thread or a finished one). -/
def step (c : Config) (i : Tid) : Config :=
  match c.threads[i]? with
  | none => c
  | some t =>
    match t.rest with
    | [] => c
    | s :: rest =>
      { store := (s.exec c.store t.out).1
        threads := c.threads.set i ⟨rest, (s.exec c.store t.out).2⟩
        trace := c.trace ++ (s.event i).toList }

/-- A schedule names, for every step of the execution, the thread that moves. Every list of
thread ids is a schedule: the theorems quantify over all of them. -/
abbrev Schedule := List Tid

def runFrom (sched : Schedule) (c : Config) : Config := sched.foldl step c

def init (σ : Store) (ts : List Thread) : Config :=
  { store := σ, threads := ts.map (fun t => ⟨t, []⟩), trace := [] }

/-- Run threads `ts` from store `σ` under `sched`. -/
def run (sched : Schedule) (σ : Store) (ts : List Thread) : Config := runFrom sched (init σ ts)

/-- Observations of thread `i`. -/
def Config.result (c : Config) (i : Tid) : Option (List Val) := c.threads[i]?.map (·.out)

/-- Thread `i` exists and has no step left. -/
def Config.finished (c : Config) (i : Tid) : Bool :=
  match c.threads[i]? with
  | some t => t.rest.isEmpty
  | none => false

/-- Sequential execution of a step list. -/
def seqRun : List Step → Store → List Val → Store × List Val
  | [], σ, out => (σ, out)
  | s :: rest, σ, out => seqRun rest (s.exec σ out).1 (s.exec σ out).2

/-- Result of a thread that runs alone from store `σ`. -/
def runAlone (σ : Store) (t : Thread) : List Val := (seqRun t σ []).2

/-! ## Data races -/

def Event.conflicts (a b : Event) : Bool :=
  decide (a.tid ≠ b.tid) && decide (a.loc = b.loc) && (a.isWrite || b.isWrite)

/-- Two accesses to one location by different threads, at least one a write. -/
def HasRace (tr : List Event) : Prop :=
  ∃ a ∈ tr, ∃ b ∈ tr, a.tid ≠ b.tid ∧ a.loc = b.loc ∧ (a.isWrite = true ∨ b.isWrite = true)

/-- Executable version of `HasRace` (`hasRace_iff` in `Proofs/ConcLemmas.lean`). -/
def hasRace (tr : List Event) : Bool := tr.any fun a => tr.any fun b => a.conflicts b

/-! ## Ownership discipline -/

/-- Locations thread `i` may touch at all: the shared region and its own allocations. -/
def Visible (i : Tid) (l : Loc) : Prop := l.owner = none ∨ l.owner = some i

/-- Every write of every thread targets a location owned by that thread. -/
@[reducible] def WritesOwned (ts : List Thread) : Prop :=
  ∀ i t, ts[i]? = some t → ∀ l f, Step.write l f ∈ t → l.owner = some i

/-- No thread reads another thread's allocations (they are unreachable: a pointer to them
would have to be stored in the shared region, which `WritesOwned` excludes). -/
@[reducible] def ReadsVisible (ts : List Thread) : Prop :=
  ∀ i t, ts[i]? = some t → ∀ l, Step.read l ∈ t → Visible i l

/-- Executable check of both conditions for one step of thread `i`. -/
def Step.confinedB (i : Tid) : Step → Bool
  | .read l => decide (l.owner = none) || decide (l.owner = some i)
  | .write l _ => decide (l.owner = some i)
  | .pure _ => true

def confinedFrom : Tid → List Thread → Bool
  | _, [] => true
  | i, t :: ts => t.all (Step.confinedB i) && confinedFrom (i + 1) ts

/-- Executable check of `WritesOwned ∧ ReadsVisible` (`confinedB_sound`). -/
def confinedB (ts : List Thread) : Bool := confinedFrom 0 ts

end Conc
