import Liquid.Basic
import Liquid.Value
import Liquid.Lookup
/-!
# Comparison, `contains` and boolean operators (property C09)

Model of `values/compare.go` (`Equal`, `Less`, `joinKind`, `compareInts`, `equalMaps`,
`safeEqual`), of the `Value` wrappers of `values/value.go`, `values/drop.go`,
`values/mapslicevalue.go` (`ValueOf`, and the methods `Equal`, `Less`, `Contains`, `Test`,
`Interface`), and of the relational / boolean grammar actions of `expressions/expressions.y`.
The model follows the code *after* the repairs `fixes/C09-1..3` (maps compare entry-wise and an
uncomparable operand never panics; all ten integer kinds join; an ordered map delegates `Equal`).

Every Go primitive that can panic is a partial function here (`Res.panic`): the `reflect`
accessors `Bool`, `Int`, `Uint`, `Convert(float64)`, `Len`/`Index`, `Type.Key`, and Go's
interface comparison `a == b` (`goEq`), which panics when both operands have the same
uncomparable dynamic type.  `Proofs/C09.lean` proves that no operator ever reaches one of them.

Outside the model (`Res.unmodelled`): pointer identity (two non-nil pointers), `==` between two
values of a struct type other than `Range`/`time.Time`, `[]byte` and `IterationKeyedMap` (the
driver rewrites these two to the `[]uint8` / `map[string]any` forms they are indistinguishable
from here), `fmt.Sprint` of a float or container needle of a string `contains`, `contains` on a
struct.
-/

namespace Cmp

abbrev R := Res Cause

/-! ## `reflect.Kind` and the accessors of `reflect.Value` -/

inductive RKind where
  | invalid | bool | int (k : IntKind) | flt (k : FltKind) | str | slice | array | map | struct | ptr
  deriving Repr, DecidableEq, Inhabited

/-- `reflect.ValueOf(v).Kind()` (of a non-nil interface; `nil` gives `Invalid`).
The harness realises a drop as a struct `dropV{v any}`. -/
def rkind : GoVal → RKind
  | .nil => .invalid
  | .bool _ => .bool
  | .int k _ => .int k
  | .flt k _ => .flt k
  | .str _ => .str
  | .bytes _ => .slice
  | .slice _ _ => .slice
  | .array _ _ => .array
  | .map _ _ _ => .map
  | .mapSlice _ => .slice
  | .keyedMap _ => .map
  | .range _ _ => .struct
  | .ptr _ => .ptr
  | .nilPtr => .ptr
  | .drop _ => .struct
  | .struct _ => .struct
  | .time _ => .struct

/-- `isIntKind` (after C09-2: the ten signed and unsigned kinds) -/
def RKind.isInt : RKind → Bool
  | .int _ => true
  | _ => false

def RKind.isFloat : RKind → Bool
  | .flt _ => true
  | _ => false

/-- `isUintKind` -/
def RKind.isUint : RKind → Bool
  | .int k => !k.isSigned
  | _ => false

/-- `joinKind`, line by line. -/
def joinKind (a b : RKind) : RKind :=
  if a = b then a else
  match a with
  | .array | .slice => if b = .array || b = .slice then .slice else .invalid
  | .int _ => if b.isInt then .int .i64 else if b.isFloat then .flt .f64 else .invalid
  | .flt _ => if b.isInt || b.isFloat then .flt .f64 else .invalid
  | _ => .invalid

/-- `rv.Bool()` -/
def rBool : GoVal → R Bool
  | .bool b => .ok b
  | _ => .panic "reflect: call of reflect.Value.Bool on non-bool Value"

/-- `rv.Int()`: panics unless the kind is a signed integer kind -/
def rInt : GoVal → R Int
  | .int k n => if k.isSigned then .ok n else .panic "reflect: call of reflect.Value.Int on uint Value"
  | _ => .panic "reflect: call of reflect.Value.Int on non-int Value"

/-- `rv.Uint()`: panics unless the kind is an unsigned integer kind -/
def rUint : GoVal → R Int
  | .int k n => if k.isSigned then .panic "reflect: call of reflect.Value.Uint on int Value" else .ok n
  | _ => .panic "reflect: call of reflect.Value.Uint on non-uint Value"

/-- `rv.String()` of a value of kind String (for other kinds Go returns `"<T Value>"`) -/
def rString : GoVal → R Bytes
  | .str s => .ok s
  | _ => .unmodelled "reflect.Value.String of a non-string"

/-- Round a natural number to the nearest integer representable with a 53-bit significand, ties to
even: Go's `float64(n)` for an integer `n` (no overflow: `n < 2^1024` for every Go integer). -/
def roundF64Nat (m : Nat) : Nat :=
  if m ≤ 2 ^ 53 then m else
  let e := m.log2 - 52            -- bit length − 53
  let q := m >>> e
  let r := m % 2 ^ e
  let half := 2 ^ (e - 1)
  let q' := if r > half || (r == half && q % 2 == 1) then q + 1 else q
  q' <<< e

/-- `float64(n)` for a Go integer (signed or unsigned) `n`, as the exact value of the result. -/
def f64OfInt (n : Int) : Int :=
  if n < 0 then -(roundF64Nat n.natAbs : Int) else (roundF64Nat n.natAbs : Int)

/-- `rv.Convert(float64Type).Float()`: integers are rounded, `float32` is exact; any other kind is
not convertible and panics. -/
def rFloat64 : GoVal → R Rat
  | .int _ n => .ok (f64OfInt n : Int)
  | .flt _ q => .ok q
  | _ => .panic "reflect.Value.Convert: value cannot be converted to type float64"

/-- `compareInts` (C09-2): exact comparison of two integers of any signedness.
`uint64(x)` of a non-negative `x` is `x`. -/
def compareInts (a b : GoVal) : R Ordering :=
  match (rkind a).isUint, (rkind b).isUint with
  | true, true => do
    let x ← rUint a
    let y ← rUint b
    .ok (compare x y)
  | true, false => do
    let y ← rInt b
    if y < 0 then .ok .gt else do
      let x ← rUint a
      .ok (compare x y)
  | false, true => do
    let x ← rInt a
    if x < 0 then .ok .lt else do
      let y ← rUint b
      .ok (compare x y)
  | false, false => do
    let x ← rInt a
    let y ← rInt b
    .ok (compare x y)

/-! ## `ToLiquid`, interface equality -/

/-- `values.ToLiquid`: a drop that yields a drop is resolved in turn (`GoVal.toLiquid`). A pointer to
the harness's drop struct is a drop as well (the method set of `*dropV` contains `ToLiquid`). -/
def toLiq : GoVal → GoVal
  | .drop v => toLiq v
  | .ptr (.drop v) => toLiq v
  | v => v

/-- `reflect.ValueOf(a).Comparable()` of a non-nil interface value -/
def comparableV : GoVal → R Bool
  | .nil | .bool _ | .int _ _ | .flt _ _ | .str _ => .ok true
  | .range _ _ | .time _ | .ptr _ | .nilPtr => .ok true
  | .slice _ _ | .map _ _ _ | .mapSlice _ => .ok false
  | .bytes _ => .unmodelled "[]byte (the driver rewrites it to []uint8)"
  | .keyedMap _ => .unmodelled "IterationKeyedMap (the driver rewrites it to map[string]any)"
  | .array _ _ => .unmodelled "comparability of an array value"
  | .drop _ | .struct _ => .unmodelled "comparability of a struct value"

/-- Go's `a == b` on two non-nil interface values: false when the dynamic types differ, the
comparison of the values when the type is comparable, and a run-time panic ("comparing
uncomparable type") when both have the same uncomparable type. -/
def goEq : GoVal → GoVal → R Bool
  | .bytes _, _ | _, .bytes _ => .unmodelled "[]byte"
  | .keyedMap _, _ | _, .keyedMap _ => .unmodelled "IterationKeyedMap"
  | .bool x, .bool y => .ok (x == y)
  | .int k n, .int k' m => .ok (k == k' && n == m)
  | .flt k q, .flt k' r => .ok (k == k' && q == r)
  | .str s, .str t => .ok (s == t)
  | .range x y, .range x' y' => .ok (x == x' && y == y')
  | .time u, .time u' => .ok (u == u')
  | .nilPtr, .nilPtr => .ok true
  | .nilPtr, .ptr _ | .ptr _, .nilPtr => .ok false
  | .ptr _, .ptr _ => .unmodelled "pointer identity"
  | .slice t _, .slice t' _ =>
    if t = t' then .panic "runtime error: comparing uncomparable type (slice)" else .ok false
  | .map k v _, .map k' v' _ =>
    if k = k' ∧ v = v' then .panic "runtime error: comparing uncomparable type (map)" else .ok false
  | .mapSlice _, .mapSlice _ => .panic "runtime error: comparing uncomparable type yaml.MapSlice"
  | .array _ _, .array _ _ => .unmodelled "== on array values"
  | .struct _, .struct _ => .unmodelled "== on struct values"
  | .drop _, .drop _ => .unmodelled "== on struct values"
  | _, _ => .ok false

/-- which struct type a value of kind Struct has (0: not a struct) -/
def structTag : GoVal → Nat
  | .range _ _ => 1
  | .time _ => 2
  | .struct _ => 3
  | .drop _ => 4
  | _ => 0

/-- `safeEqual` (C09-1): `reflect.ValueOf(a).Comparable() && a == b`. When the operands have
different kinds (or are different struct types) their dynamic types differ: `Comparable()`,
which is total, is followed by an `==` that is false, so the result is false either way. -/
def safeEqual (a b : GoVal) : R Bool :=
  if a.isNil || b.isNil then .ok (a.isNil && b.isNil)
  else if rkind a ≠ rkind b || structTag a ≠ structTag b then .ok false
  else do
    let c ← comparableV a
    if c then goEq a b else .ok false

/-! ## Map keys -/

/-- a hashable scalar, as a type with decidable equality (Go's `==` on map keys) -/
inductive Key where
  | nil | bool (b : Bool) | int (k : IntKind) (n : Int) | flt (k : FltKind) (q : Rat) | str (s : Bytes)
  deriving DecidableEq, Repr

def toKey : GoVal → Option Key
  | .nil => some .nil
  | .bool b => some (.bool b)
  | .int k n => some (.int k n)
  | .flt k q => some (.flt k q)
  | .str s => some (.str s)
  | _ => none

/-- the entry of `kvs` whose key is `k` -/
def lookupKey (k : Key) : List (GoVal × GoVal) → Option GoVal
  | [] => none
  | (k', v) :: rest => if toKey k' = some k then some v else lookupKey k rest

/-- `rb.MapIndex(key)` for a key taken from a map with the same key type (so it cannot panic);
`none` models the invalid `reflect.Value` of a missing key. Keys other than nil, booleans,
numbers and strings are outside the model. -/
def mapIndex (kvs : List (GoVal × GoVal)) (k : GoVal) : R (Option GoVal) :=
  match toKey k with
  | some kk => .ok (lookupKey kk kvs)
  | none => .unmodelled "map key that is not a scalar"

/-! ## `values.Equal` -/

/-- the elements `rv.Index(i).Interface()` of a value of kind Slice/Array: Go values, or the
`yaml.MapItem` structs of a `yaml.MapSlice`; `rv.Len()` panics on any other kind -/
inductive SeqView where
  | vals (xs : List GoVal)
  | items (kvs : List (GoVal × GoVal))

def seqView : GoVal → R SeqView
  | .slice _ xs | .array _ xs => .ok (.vals xs)
  | .mapSlice kvs => .ok (.items kvs)
  | .bytes _ => .unmodelled "[]byte (the driver rewrites it to []uint8)"
  | _ => .panic "reflect: call of reflect.Value.Len on a value that is not a sequence"

/-- key type and entries of a value of kind Map; `Type.Key` panics on any other kind -/
def mapView : GoVal → R (Ty × List (GoVal × GoVal))
  | .map kt _ kvs => .ok (kt, kvs)
  | .keyedMap _ => .unmodelled "IterationKeyedMap (the driver rewrites it to map[string]any)"
  | _ => .panic "reflect: Key of non-map type"

/-- `Equal(x, item)` for an ordinary value `x` and a `yaml.MapItem`: `x` is nil (false), or of a
kind that does not join with Struct (`safeEqual`: different dynamic types, false), or a struct
that is not a `MapItem` (`safeEqual`: different types, false). So element-wise equality of a
sequence of values with a `MapSlice` holds exactly when both are empty. -/
def valsVsItems (n m : Nat) : Bool := n == m && n == 0

/-- `ra.Len()` / `ra.Type().Key()` on a first operand that is not a sequence / map (not reached:
`joinKind` selects those cases only for sequences / maps) -/
def noSeq : SeqView → R Bool :=
  fun _ => .panic "reflect: call of reflect.Value.Len on a value that is not a sequence"
def noMap : Ty → List (GoVal × GoVal) → R Bool :=
  fun _ _ => .panic "reflect: Key of non-map type"

/-- The body of `values.Equal` after `a, b = ToLiquid(a), ToLiquid(b)`. The two loops that recurse
into the first operand are passed in: `seqK` is the Array/Slice case (`ra.Len() != rb.Len()` and
the element loop) given the elements of `b`, `mapK` is `equalMaps` given the key type and entries
of `b`. -/
def equalBody (a b : GoVal) (seqK : SeqView → R Bool) (mapK : Ty → List (GoVal × GoVal) → R Bool) :
    R Bool :=
  if a.isNil || b.isNil then .ok (a.isNil && b.isNil) else
  match joinKind (rkind a) (rkind b) with
  | .array | .slice => (seqView b).bind seqK
  | .bool => do
    let x ← rBool a
    let y ← rBool b
    .ok (x == y)
  | .int _ => do
    let o ← compareInts a b
    .ok (o == .eq)
  | .flt _ => do
    let x ← rFloat64 a
    let y ← rFloat64 b
    .ok (x == y)
  | .str => do
    let x ← rString a
    let y ← rString b
    .ok (x == y)
  | .map => (mapView b).bind fun kb => mapK kb.1 kb.2
  | .ptr =>
    -- both operands are pointers: `ra.IsNil() || rb.IsNil()`, else `a == b`
    match a, b with
    | .nilPtr, .nilPtr => .ok true
    | .nilPtr, _ | _, .nilPtr => .ok false
    | _, _ => .unmodelled "pointer identity"
  | .struct => safeEqual a b     -- no `GoVal` is a `yaml.MapItem`
  | .invalid => safeEqual a b

/-- the Array/Slice case for a first operand with elements `xs`: `ra.Len() != rb.Len()`, then the
element loop `loop` (against a `MapSlice`: see `valsVsItems`) -/
def seqVals (xs : List GoVal) (loop : List GoVal → R Bool) : SeqView → R Bool
  | .vals ys => if xs.length != ys.length then .ok false else loop ys
  | .items kvs => .ok (valsVsItems xs.length kvs.length)

/-- the Array/Slice case for a first operand that is a `yaml.MapSlice` with items `kvs` -/
def seqItems (kvs : List (GoVal × GoVal)) (loop : List (GoVal × GoVal) → R Bool) : SeqView → R Bool
  | .vals ys => .ok (valsVsItems ys.length kvs.length)
  | .items kvs' => if kvs.length != kvs'.length then .ok false else loop kvs'

/-- `equalMaps` for a first operand with key type `kt` and entries `kvs` -/
def mapEntries (kt : Ty) (kvs : List (GoVal × GoVal)) (loop : List (GoVal × GoVal) → R Bool) :
    Ty → List (GoVal × GoVal) → R Bool :=
  fun kt' kvs' => if kt != kt' || kvs.length != kvs'.length then .ok false else loop kvs'

def bytesSeq : SeqView → R Bool :=
  fun _ => .unmodelled "[]byte (the driver rewrites it to []uint8)"
def keyedMapK : Ty → List (GoVal × GoVal) → R Bool :=
  fun _ _ => .unmodelled "IterationKeyedMap (the driver rewrites it to map[string]any)"

mutual
/-- `values.Equal(a, b)`. `equalAux true a b` is the function itself (its `ToLiquid(a)` follows a drop that
yields a drop to the end); `equalAux false a b` is its body after `a = ToLiquid(a)` (the flag only exists to
keep the recursion structural). -/
def equalAux : Bool → GoVal → GoVal → R Bool
  | true, .drop v, b => equalAux true v b
  | false, .drop v, b => equalBody (.drop v) (toLiq b) noSeq noMap
  | fl, .ptr v, b =>
    match fl, v with
    | true, .drop w => equalAux true w b
    | _, _ => equalBody (.ptr v) (toLiq b) noSeq noMap
  | _, .slice t xs, b => equalBody (.slice t xs) (toLiq b) (seqVals xs (equalList xs)) noMap
  | _, .array t xs, b => equalBody (.array t xs) (toLiq b) (seqVals xs (equalList xs)) noMap
  | _, .mapSlice kvs, b => equalBody (.mapSlice kvs) (toLiq b) (seqItems kvs (equalItems kvs)) noMap
  | _, .map kt vt kvs, b => equalBody (.map kt vt kvs) (toLiq b) noSeq (mapEntries kt kvs (mapAll kvs))
  | _, .bytes s, b => equalBody (.bytes s) (toLiq b) bytesSeq noMap
  | _, .keyedMap fs, b => equalBody (.keyedMap fs) (toLiq b) noSeq keyedMapK
  | _, .nil, b => equalBody .nil (toLiq b) noSeq noMap
  | _, .bool x, b => equalBody (.bool x) (toLiq b) noSeq noMap
  | _, .int k n, b => equalBody (.int k n) (toLiq b) noSeq noMap
  | _, .flt k q, b => equalBody (.flt k q) (toLiq b) noSeq noMap
  | _, .str s, b => equalBody (.str s) (toLiq b) noSeq noMap
  | _, .range x y, b => equalBody (.range x y) (toLiq b) noSeq noMap
  | _, .nilPtr, b => equalBody .nilPtr (toLiq b) noSeq noMap
  | _, .struct fs, b => equalBody (.struct fs) (toLiq b) noSeq noMap
  | _, .time u, b => equalBody (.time u) (toLiq b) noSeq noMap
/-- the element loop of the Array/Slice case (the lengths are equal) -/
def equalList : List GoVal → List GoVal → R Bool
  | x :: xs, y :: ys => do
    let r ← equalAux true x y
    if r then equalList xs ys else .ok false
  | _, _ => .ok true
/-- the same loop over the items of two `yaml.MapSlice`s: `Equal(item, item')` takes the Struct
case, `Equal(Key, Key') && Equal(Value, Value')` -/
def equalItems : List (GoVal × GoVal) → List (GoVal × GoVal) → R Bool
  | (k, v) :: xs, (k', v') :: ys => do
    let rk ← equalAux true k k'
    if rk then do
      let rv ← equalAux true v v'
      if rv then equalItems xs ys else .ok false
    else .ok false
  | _, _ => .ok true
/-- the loop of `equalMaps` over the entries of the first map (Go's iteration order is
unspecified; the result does not depend on it) -/
def mapAll : List (GoVal × GoVal) → List (GoVal × GoVal) → R Bool
  | [], _ => .ok true
  | (k, v) :: rest, bs => do
    match (← mapIndex bs k) with
    | none => .ok false
    | some v' =>
      let r ← equalAux true v v'
      if r then mapAll rest bs else .ok false
end

/-- `values.Equal` -/
def equal (a b : GoVal) : R Bool := equalAux true a b

/-- the two loops of `Equal` for a first operand `a` (already through `ToLiquid`) -/
def seqK : GoVal → SeqView → R Bool
  | .slice _ xs | .array _ xs => seqVals xs (equalList xs)
  | .mapSlice kvs => seqItems kvs (equalItems kvs)
  | .bytes _ => bytesSeq
  | _ => noSeq
def mapK : GoVal → Ty → List (GoVal × GoVal) → R Bool
  | .map kt _ kvs => mapEntries kt kvs (mapAll kvs)
  | .keyedMap _ => keyedMapK
  | _ => noMap

/-- `values.Equal` on operands that went through `ToLiquid` (`Proofs/CompareLemmas.lean`:
`equal a b = equalTL (toLiq a) (toLiq b)`) -/
def equalTL (a b : GoVal) : R Bool := equalBody a b (seqK a) (mapK a)

/-! ## `values.Less` -/

/-- Go's `<` on strings: lexicographic on bytes -/
def bytesLt (s t : Bytes) : Bool := decide (s < t)

/-- the body of `values.Less` after `a, b = ToLiquid(a), ToLiquid(b)` -/
def lessTL (a b : GoVal) : R Bool :=
  if a.isNil || b.isNil then .ok false else
  match joinKind (rkind a) (rkind b) with
  | .bool => do
    let x ← rBool a
    let y ← rBool b
    .ok (!x && y)
  | .int _ => do
    let o ← compareInts a b
    .ok (o == .lt)
  | .flt _ => do
    let x ← rFloat64 a
    let y ← rFloat64 b
    .ok (decide (x < y))
  | .str => do
    let x ← rString a
    let y ← rString b
    .ok (bytesLt x y)
  | _ => .ok false

/-- `values.Less` -/
def less (a b : GoVal) : R Bool := lessTL (toLiq a) (toLiq b)

/-! ## The `Value` wrappers -/

/-- which implementation of the `Value` interface `ValueOf` returns -/
inductive Wrapper where
  | wrapper (v : GoVal)       -- wrapperValue{v} (also the interned nil/true/false/0/1)
  | array (v : GoVal)         -- arrayValue
  | map (v : GoVal)           -- mapValue
  | string (v : GoVal)        -- stringValue
  | struct (v : GoVal)        -- structValue (a struct, or a non-nil pointer to one)
  | mapSlice (kvs : List (GoVal × GoVal))
  | drop (d : GoVal)          -- &dropWrapper{d}; the field is the value `d.ToLiquid()` returns
  deriving Inhabited

def isStructKind : GoVal → Bool
  | .range _ _ | .time _ | .struct _ | .drop _ => true
  | _ => false

/-- `values.ValueOf` -/
def valueOf : GoVal → Wrapper
  | .nil => .wrapper .nil
  | .bool b => .wrapper (.bool b)
  | .int k n => .wrapper (.int k n)
  | .flt k q => .wrapper (.flt k q)
  | .drop v => .drop v
  | .ptr (.drop v) => .drop v
  | .mapSlice kvs => .mapSlice kvs
  | .nilPtr => .wrapper .nil
  | .ptr v => if isStructKind v then .struct (.ptr v) else valueOf v
  | .str s => .string (.str s)
  | .bytes s => .array (.bytes s)
  | .slice t xs => .array (.slice t xs)
  | .array t xs => .array (.array t xs)
  | .map k v kvs => .map (.map k v kvs)
  | .keyedMap kvs => .map (.keyedMap kvs)
  | .range a b => .struct (.range a b)
  | .struct fs => .struct (.struct fs)
  | .time u => .struct (.time u)

/-- `ValueOf(d.ToLiquid())`, followed through drops that yield drops: the wrapper that finally
answers the methods of a `dropWrapper` (each forwards to `Resolve()`). -/
def resolveVal : GoVal → Wrapper
  | .drop v => resolveVal v
  | .ptr (.drop v) => resolveVal v
  | .ptr v => if isStructKind v then .struct (.ptr v) else resolveVal v
  | v => valueOf v

def Wrapper.resolve : Wrapper → Wrapper
  | .drop d => resolveVal d
  | w => w

/-- `Interface()` -/
def Wrapper.iface (w : Wrapper) : GoVal :=
  match w.resolve with
  | .wrapper v | .array v | .map v | .string v | .struct v => v
  | .mapSlice kvs => .mapSlice kvs
  | .drop d => d   -- not reached: `resolve` never returns a drop

/-- `Equal(other)`: `wrapperValue.Equal` (inherited by the array/map/string/struct wrappers) and,
after C09-3, `mapSliceValue.Equal` -/
def Wrapper.equal (w o : Wrapper) : R Bool :=
  match w.resolve with
  | .wrapper v | .array v | .map v | .string v | .struct v => Cmp.equal v o.iface
  | .mapSlice kvs => Cmp.equal (.mapSlice kvs) o.iface
  | .drop _ => .unmodelled "unresolved drop"

/-- `Less(other)`: `wrapperValue.Less`; `valueEmbed.Less` (false) for a `MapSlice` -/
def Wrapper.less (w o : Wrapper) : R Bool :=
  match w.resolve with
  | .wrapper v | .array v | .map v | .string v | .struct v => Cmp.less v o.iface
  | .mapSlice _ => .ok false
  | .drop _ => .unmodelled "unresolved drop"

/-- `v == false` on an interface -/
def isFalseV : GoVal → Bool
  | .bool false => true
  | _ => false

/-- `wrapperValue.Test`: `v.value != nil && v.value != false` (an interface comparison with a
`bool`, which cannot panic); `valueEmbed.Test` (true) for a `MapSlice` -/
def Wrapper.test (w : Wrapper) : R Bool :=
  match w.resolve with
  | .wrapper v | .array v | .map v | .string v | .struct v =>
    .ok (!v.isNil && !isFalseV v)
  | .mapSlice _ => .ok true
  | .drop _ => .unmodelled "unresolved drop"

/-! ### `Contains` -/

/-- `strings.Contains` -/
def containsB : Bytes → Bytes → Bool
  | s, sub => isPrefixOfB sub s || match s with
    | [] => false
    | _ :: t => containsB t sub

/-- `fmt.Sprint` of the needle of a string `contains`, for nil, booleans and integers -/
def sprintNeedle : GoVal → R Bytes
  | .nil => .ok (bs "<nil>")
  | .bool true => .ok (bs "true")
  | .bool false => .ok (bs "false")
  | .int _ n => .ok (bs (toString n))
  | _ => .unmodelled "fmt.Sprint of the needle"

/-- the loop of `arrayValue.Contains` -/
def containsList : List GoVal → GoVal → R Bool
  | [], _ => .ok false
  | x :: xs, e => do
    let r ← equal x e
    if r then .ok true else containsList xs e

/-- the loop of `mapSliceValue.Contains` (C09-3: `safeEqual(e, item.Key)`) -/
def mapSliceContains : List (GoVal × GoVal) → GoVal → R Bool
  | [], _ => .ok false
  | (k, _) :: rest, e => do
    let r ← safeEqual e k
    if r then .ok true else mapSliceContains rest e

/-- the dynamic type of a value, when it is one a map key type can be -/
def keyTyOf : GoVal → Option Ty
  | .bool _ => some .bool
  | .int k _ => some (.int k)
  | .flt k _ => some (.flt k)
  | .str _ => some .str
  | _ => none

/-- `Contains(e)` of a wrapper that is not a `dropWrapper` -/
def containsW (w : Wrapper) (e : GoVal) : R Bool :=
  match w with
  | .wrapper _ => .ok false
  | .array v => do
    -- arrayValue.Contains
    match (← seqView v) with
    | .vals xs => containsList xs e
    | .items _ => .ok false   -- not reached (a MapSlice gets its own wrapper); `Equal(item, e)` is false
  | .map v => do
    -- mapValue.Contains: the lookup of IndexValue (needle converted to the key type) finds an entry
    let (kt, kvs) ← mapView v
    if e.isNil then .ok false
    else match GoVal.convertKey kt e with
      | none => .unmodelled "map key conversion"
      | some none => .ok false
      | some (some k) => .ok (GoVal.mapFind kvs k).isSome
  | .string v =>
    -- stringValue.Contains (`sv.value.(string)`: every GoVal string has type `string`)
    match v with
    | .str s =>
      match e with
      | .str t => .ok (containsB s t)
      | e => do
        let t ← sprintNeedle e
        .ok (containsB s t)
    | _ => .panic "interface conversion: interface {} is not string"
  | .struct _ =>
    -- structValue.Contains: `name, ok := elem.Interface().(string); if !ok { return false }`,
    -- then a method / field lookup by name
    match e with
    | .str _ => .unmodelled "structValue.Contains: method and field lookup"
    | _ => .ok false
  | .mapSlice kvs =>
    mapSliceContains kvs e
  | .drop _ => .unmodelled "unresolved drop"

/-- `Contains(e)` -/
def Wrapper.contains (w o : Wrapper) : R Bool := containsW w.resolve o.iface

/-! ## The grammar actions -/

/-- `IDENTIFIER`: `values.ValueOf(ctx.Get(name))`, and `ctx.Get` applies `ToLiquid` -/
def operand (v : GoVal) : Wrapper := valueOf (toLiq v)

inductive Op where
  | eq | ne | lt | gt | le | ge | contains
  deriving Repr, DecidableEq, Inhabited

/-- the action of `expr OP expr` on the two evaluated operands (before `values.ValueOf(bool)`) -/
def relW : Op → Wrapper → Wrapper → R Bool
  | .eq, a, b => a.equal b
  | .ne, a, b => do
    let r ← a.equal b
    .ok (!r)
  | .lt, a, b => a.less b
  | .gt, a, b => b.less a
  | .le, a, b => do          -- a.Less(b) || a.Equal(b)
    let l ← a.less b
    if l then .ok true else a.equal b
  | .ge, a, b => do          -- b.Less(a) || a.Equal(b)
    let l ← b.less a
    if l then .ok true else a.equal b
  | .contains, a, b => a.contains b

def opEq (a b : GoVal) : R Bool := relW .eq (operand a) (operand b)
def opNe (a b : GoVal) : R Bool := relW .ne (operand a) (operand b)
def opLt (a b : GoVal) : R Bool := relW .lt (operand a) (operand b)
def opGt (a b : GoVal) : R Bool := relW .gt (operand a) (operand b)
def opLe (a b : GoVal) : R Bool := relW .le (operand a) (operand b)
def opGe (a b : GoVal) : R Bool := relW .ge (operand a) (operand b)
def opContains (a b : GoVal) : R Bool := relW .contains (operand a) (operand b)
def truthy (a : GoVal) : R Bool := (operand a).test

/-- `cond AND rel`: `fa(ctx).Test() && fb(ctx).Test()` (the right operand is evaluated only if needed) -/
def andW (a : Wrapper) (b : Unit → R Wrapper) : R Bool := do
  let x ← a.test
  if x then do
    let bw ← b ()
    bw.test
  else .ok false
/-- `cond OR rel` -/
def orW (a : Wrapper) (b : Unit → R Wrapper) : R Bool := do
  let x ← a.test
  if x then .ok true else do
    let bw ← b ()
    bw.test

def opAnd (a b : GoVal) : R Bool := andW (operand a) (fun _ => .ok (operand b))
def opOr (a b : GoVal) : R Bool := orW (operand a) (fun _ => .ok (operand b))

/-! ### Conditions (`cond`, `rel`, `expr` of the grammar) over bound variables -/

/-- `cond: rel | cond AND rel | cond OR rel` (`and`/`or` have equal precedence and associate to
the left), `rel: expr | expr OP expr`, `expr: IDENTIFIER | expr '[' 0 ']' | '(' cond ')'`.
`elem i` stands for `w[0]` where `w` is bound to the one-element array holding value `i`
(`arrayValue.IndexValue` returns `ValueOf(element)`, without `ToLiquid`). -/
inductive CE where
  | var (i : Nat)
  | elem (i : Nat)
  | rel (o : Op) (a b : CE)
  | and (a b : CE)
  | or (a b : CE)
  deriving Repr, Inhabited

def CE.eval (env : List GoVal) : CE → R Wrapper
  | .var i => match env[i]? with
    | some v => .ok (operand v)
    | none => .unmodelled "unbound variable"
  | .elem i => match env[i]? with
    | some v => .ok (valueOf v)
    | none => .unmodelled "unbound variable"
  | .rel o a b => do
    let x ← a.eval env
    let y ← b.eval env
    let r ← relW o x y
    .ok (valueOf (.bool r))
  | .and a b => do
    let x ← a.eval env
    let r ← andW x (fun _ => b.eval env)
    .ok (valueOf (.bool r))
  | .or a b => do
    let x ← a.eval env
    let r ← orW x (fun _ => b.eval env)
    .ok (valueOf (.bool r))

/-! ## Driver glue (line protocol) -/

mutual
/-- `[]byte` is the type `[]uint8`, and an `IterationKeyedMap` is a `map[string]any` for every
operation of this file; the driver rewrites both so that the model covers them. -/
def prep : GoVal → GoVal
  | .bytes s => .slice (.int .u8) (s.map fun b => .int .u8 b.toNat)
  | .keyedMap fs => .map .str .any (prepFields fs)
  | .slice t xs => .slice t (prepList xs)
  | .array t xs => .array t (prepList xs)
  | .map k v kvs => .map k v (prepKVs kvs)
  | .mapSlice kvs => .mapSlice (prepKVs kvs)
  | .ptr v => .ptr (prep v)
  | .drop v => .drop (prep v)
  | .struct fs => .struct fs
  | v => v
def prepList : List GoVal → List GoVal
  | [] => []
  | x :: xs => prep x :: prepList xs
def prepKVs : List (GoVal × GoVal) → List (GoVal × GoVal)
  | [] => []
  | (k, v) :: r => (prep k, prep v) :: prepKVs r
def prepFields : List (Bytes × GoVal) → List (GoVal × GoVal)
  | [] => []
  | (k, v) :: r => (.str k, prep v) :: prepFields r
end

def resChar : R Bool → Except String Char
  | .ok true => .ok 'T'
  | .ok false => .ok 'F'
  | .err _ => .ok 'E'
  | .panic _ => .ok 'P'
  | .unmodelled w => .error w

def formOperand (form : Char) (v : GoVal) : Wrapper :=
  if form == 'e' then valueOf v else operand v

def relOps : List Op := [.eq, .ne, .lt, .gt, .le, .ge]

def opsString (ops : List Op) (a b : Wrapper) : Except String String := do
  let cs ← ops.mapM fun o => resChar (relW o a b)
  pure (String.ofList cs)

/-- `rel`/`con` case: the operators in both orders -/
def runPair (ops : List Op) (forms a b : String) : String :=
  match forms.toList, GoVal.parse a, GoVal.parse b with
  | [fa, fb], some x, some y =>
    let wa := formOperand fa (prep x)
    let wb := formOperand fb (prep y)
    match opsString ops wa wb, opsString ops wb wa with
    | .ok s, .ok t => "ok " ++ s ++ "|" ++ t
    | .error w, _ | _, .error w => "unmodelled " ++ w
  | _, _, _ => "unmodelled parse"

/-- `tru` case: `x and true`, i.e. `Test()` -/
def runTruthy (form a : String) : String :=
  match form.toList, GoVal.parse a with
  | [f], some x =>
    match resChar ((formOperand f (prep x)).test) with
    | .ok c => "ok " ++ String.singleton c
    | .error w => "unmodelled " ++ w
  | _, _ => "unmodelled parse"

def opOfChar : Char → Option Op
  | '=' => some .eq | '!' => some .ne | '<' => some .lt | '>' => some .gt
  | 'l' => some .le | 'g' => some .ge | 'c' => some .contains
  | _ => none

/-- prefix code of a condition: `v<d>` `e<d>` `<op>AB` `&AB` `|AB` -/
def CE.dec : Nat → List Char → Option (CE × List Char)
  | 0, _ => none
  | _ + 1, [] => none
  | f + 1, c :: cs =>
    match c with
    | 'v' => match cs with
      | d :: r => some (.var (digitVal d), r)
      | [] => none
    | 'e' => match cs with
      | d :: r => some (.elem (digitVal d), r)
      | [] => none
    | '&' => match CE.dec f cs with
      | some (a, r) => (CE.dec f r).map fun (b, r') => (.and a b, r')
      | none => none
    | '|' => match CE.dec f cs with
      | some (a, r) => (CE.dec f r).map fun (b, r') => (.or a b, r')
      | none => none
    | c => match opOfChar c with
      | some o => match CE.dec f cs with
        | some (a, r) => (CE.dec f r).map fun (b, r') => (.rel o a b, r')
        | none => none
      | none => none

/-- `expr` case: a condition over bound values; the result is `Interface()` of the value -/
def runExpr (e : String) (vals : List String) : String :=
  match CE.dec (e.length + 1) e.toList, vals.mapM GoVal.parse with
  | some (ce, []), some vs =>
    match ce.eval (vs.map prep) with
    | .ok w => "ok " ++ w.iface.enc
    | .err _ => "err"
    | .panic _ => "panic"
    | .unmodelled w => "unmodelled " ++ w
  | _, _ => "unmodelled parse"

end Cmp
