import Liquid.Sprint
import Liquid.MapOrder
/-!
# `values.Convert` for the parameter types of the standard filters (DESIGN §4.3, A.7)

`convert v t` models `values.Convert(v, reflect.TypeOf(t))` for
`t ∈ {any, bool, int, float64, string, []any, time.Time}` — the parameter types (and
default-function result types) that occur in `filters.AddStandardFilters`.

Line by line:

1. `value = ToLiquid(value)` (one level).
2. `typ.Kind() != String && value != nil && rv.Type().ConvertibleTo(typ)` ⇒ Go conversion
   `rv.Convert(typ)`. By Go's convertibility rules (checked against `reflect` on the real code):
   * `any`     — every non-nil value, unchanged;
   * `bool`    — only `bool`;
   * `int`     — every integer kind (two's-complement wrap for `uint`/`uint64` above 2⁶³−1) and both
                 float kinds (truncation toward zero; out of the `int64` range the result is
                 implementation-defined ⇒ `unmodelled`). A *string is not* convertible to `int`;
   * `float64` — every integer kind (round to nearest-even, `roundF64`) and both float kinds;
   * `[]any`   — only `[]any` itself (passed by reference, elements untouched — but see `holdsDrop` below);
   * `time.Time` — only `time.Time`.
3. `typ == time.Time` and a string ⇒ `ParseDate` (`Cal.parseDate` in `Liquid/Time.lean`: the five
   all-digit layouts under `time.Local` = UTC; `now` and every other string `unmodelled`).
4. the `switch typ.Kind()`:
   * Bool: `!(value == nil || value == false)`;
   * Int: `bool` ⇒ 0/1, `string` ⇒ `strconv.ParseInt(s, 10, 64)`, anything else (nil included) `TypeError`;
   * Float64: `string` ⇒ `strconv.ParseFloat(s, 64)`, anything else `TypeError`;
   * Slice: `yaml.MapSlice` ⇒ its values, each through `ToLiquid` (a nil value stays nil); `Range` ⇒
     `AsArray`; array / typed slice (`[]byte` included) ⇒ each element through `convertElement`,
     i.e. `Convert(·, any)` = `ToLiquid`, except that a nil element stays nil
     (`fixes/array-nil-element`); map ⇒ the values in sorted key order (the D9 repair; the model's
     entry list *is* in that order), each through `convertElement`. A `[]any` is passed by
     reference by rule 2 *unless one of its elements is a drop* (`holdsDrop`,
     `fixes/drops-in-arrays`): then it is converted element by element like a typed slice. Since
     `ToLiquid` is the identity on everything but drops, both cases are `xs.map toLiquid`.
     NB `Convert(nil, any)` itself is still a `TypeError` (no rule applies to a nil value and an
     interface target): only the element position keeps a nil;
   * String: `[]byte` ⇒ the bytes; `fmt.Stringer` (only `time.Time` in the model ⇒ `Time.String()`, `timeString`);
     everything else `fmt.Sprint` (nil ⇒ `<nil>`);
   * otherwise (`any` with a nil value, `time.Time` with a non-time value) `TypeError`.
-/

/-- parameter types of the standard filters -/
inductive ParamTy where
  | any | bool | int | f64 | str | anys | time
  deriving Repr, DecidableEq, Inhabited

/-- Unix seconds of Go's zero `time.Time` (January 1, year 1 UTC) -/
def zeroTimeUnix : Int := -62135596800

/-- `reflect.Zero(typ).Interface()` -/
def ParamTy.zero : ParamTy → GoVal
  | .any => .nil
  | .bool => .bool false
  | .int => .int .int 0
  | .f64 => .flt .f64 0
  | .str => .str []
  | .anys => .slice .any []
  | .time => .time zeroTimeUnix

/-! ## float64 rounding (`Liquid/F64.lean`) -/

/-- `Representable q`: the exact rational `q` is a `float64` value (the guard of C17) -/
def Representable (q : Rat) : Prop := roundF64 q = some q

instance (q : Rat) : Decidable (Representable q) := inferInstanceAs (Decidable (roundF64 q = some q))

/-- The `float64` result of an operation whose exact result is `q`: IEEE-754 operations (and
`strconv.ParseFloat`, and integer→float conversion) return the exact result rounded to nearest,
ties to even. Overflow (±Inf) is outside the model, and so is a zero result that Go would sign
negative (`negZero`: the sign rule of the operation gives `-` — the model has no −0). -/
def f64Round (q : Rat) (negZero : Bool := false) : Res Cause Rat :=
  match roundF64 q with
  | none => .unmodelled "float64: overflow to ±Inf"
  | some r => if r == 0 && negZero then .unmodelled "float64: negative zero" else .ok r

/-! ## integers -/

def minInt64 : Int := -(2 ^ 63)
def maxInt64 : Int := 2 ^ 63 - 1

def inInt64 (n : Int) : Bool := minInt64 ≤ n && n ≤ maxInt64

/-- two's-complement reinterpretation of an integer modulo 2⁶⁴ as `int64` -/
def wrapInt64 (n : Int) : Int :=
  let m := n % (2 ^ 64)
  if m ≥ 2 ^ 63 then m - 2 ^ 64 else m

/-- truncation toward zero of a rational -/
def ratTrunc (q : Rat) : Int := Int.tdiv q.num q.den

/-- Go's `int64(f)` for a float holding `q`: defined only inside the `int64` range -/
def floatToInt64 (q : Rat) : Res Cause Int :=
  let t := ratTrunc q
  if inInt64 t then .ok t else .unmodelled "float→int conversion out of range is implementation-defined"

/-! ## `strconv.ParseInt(s, 10, 64)` -/


def digitsVal : Bytes → Nat → Nat
  | [], acc => acc
  | d :: ds, acc => digitsVal ds (acc * 10 + (d.toNat - 48))

/-- `some n` iff `strconv.ParseInt(s, 10, 64)` returns `n` without error -/
def parseInt10 (s : Bytes) : Option Int :=
  let (neg, ds) := match s with
    | 43 :: r => (false, r)
    | 45 :: r => (true, r)
    | r => (false, r)
  if ds.isEmpty || !ds.all isDigit then none else
  let n : Int := digitsVal ds 0
  let v := if neg then -n else n
  if inInt64 v then some v else none

/-! ## `strconv.ParseFloat(s, 64)` on decimal spellings -/

/-- result of reading a numeric spelling -/
inductive NumSpelling where
  | num (q : Rat)        -- the plain decimal grammar `[+-] digits [. digits] [e [+-] digits]`, exact value
  | special              -- forms ParseFloat also accepts but the model does not evaluate (inf, nan, hex, `_`)
  | bad                  -- rejected by ParseFloat
  deriving Repr, DecidableEq

def spanDigits : Bytes → Bytes × Bytes
  | [] => ([], [])
  | d :: r => if isDigit d then let (a, b) := spanDigits r; (d :: a, b) else ([], d :: r)

/-- after the sign: a hex prefix `0x`/`0X`, or a first letter of `inf`/`infinity`/`nan` (any case).
Together with "contains `_`" this over-approximates the non-decimal spellings ParseFloat accepts. -/
def startsSpecial : Bytes → Bool
  | 48 :: 120 :: _ => true
  | 48 :: 88 :: _ => true
  | c :: _ => c == 105 || c == 73 || c == 110 || c == 78
  | [] => false

/-- exact value of `mant × 10^e` -/
def scale10 (mant : Nat) (e : Int) : Rat :=
  if e ≥ 0 then ((mant * 10 ^ e.toNat : Nat) : Rat) else mkRat mant (10 ^ (-e).toNat)

def readNumber (s : Bytes) : NumSpelling :=
  let (neg, r) := match s with
    | 43 :: r => (false, r)
    | 45 :: r => (true, r)
    | r => (false, r)
  let (ip, r1) := spanDigits r
  let (fp, r2) := match r1 with
    | 46 :: r' => spanDigits r'
    | _ => ([], r1)
  let fallback : NumSpelling := if s.any (· == 95) || startsSpecial r then .special else .bad
  if ip.isEmpty && fp.isEmpty then fallback else
  let expPart : Option (Option Int) :=     -- none = malformed; some none = no exponent
    match r2 with
    | [] => some none
    | c :: r3 =>
      if c == 101 || c == 69 then
        let (eneg, r4) := match r3 with
          | 43 :: r => (false, r)
          | 45 :: r => (true, r)
          | r => (false, r)
        if r4.isEmpty || !r4.all isDigit then none
        else let e : Int := digitsVal r4 0; some (some (if eneg then -e else e))
      else none
  match expPart with
  | none => fallback
  | some eo =>
    let e := eo.getD 0
    let mant := digitsVal (ip ++ fp) 0
    if e.natAbs > 5000 then .special else
    let q := scale10 mant (e - fp.length)
    .num (if neg then -q else q)

/-- `strconv.ParseFloat(s, 64)` as `Convert` uses it: a decimal spelling converts to the nearest
`float64` (ParseFloat is correctly rounded); overflow is ParseFloat's range *error*, hence a
`TypeError`; a negative spelling that rounds to zero is −0 (`unmodelled`), and so are the special
forms; everything else is a `TypeError`. -/
def parseFloatStr (s : Bytes) : Res Cause Rat :=
  match readNumber s with
  | .bad => .err .typeErr
  | .special => .unmodelled "ParseFloat: inf/nan/hex/underscore spelling"
  | .num q =>
    match roundF64 q with
    | none => .err .typeErr
    | some r => if r == 0 && s.head? == some 45 then .unmodelled "ParseFloat: negative zero" else .ok r

/-! ## `Convert` -/

/-- `Convert(v, any)` -/
def convAny (v : GoVal) : Res Cause GoVal :=
  match v.toLiquid with
  | .nil => .err .typeErr
  | w => .ok w

/-- `convertElement(·, any)` over the elements of a container: `ToLiquid`, a nil stays nil -/
def convElems (xs : List GoVal) : List GoVal := xs.map GoVal.toLiquid

/-- `Range.AsArray` (after the D6 repair: empty when `e < b`; ranges longer than `maxRangeArrayLen` are
rejected by `Convert` before) -/
def rangeInts (a b : Int) : List GoVal :=
  (List.range (b + 1 - a).toNat).map fun (i : Nat) => GoVal.int .int (a + (i : Int))

/-- `values.Convert(v0, t)`. `budget` is NOT part of the semantics: the largest `b - a` for which the executable
    model builds the array of the range `(a..b)` (the code's own limit is `maxRangeArrayLen`, the line above the test) -/
def convert (v0 : GoVal) (t : ParamTy) (budget : Int := 1000000) : Res Cause GoVal :=
  let v := v0.toLiquid
  match t with
  | .any => convAny v0
  | .bool =>
    match v with
    | .nil => .ok (.bool false)
    | .bool b => .ok (.bool b)
    | _ => .ok (.bool true)
  | .int =>
    match v with
    | .int _ n => .ok (.int .int (wrapInt64 n))
    | .flt _ q => (floatToInt64 q).bind fun n => .ok (.int .int n)
    | .bool b => .ok (.int .int (if b then 1 else 0))
    | .str s => match parseInt10 s with
      | some n => .ok (.int .int n)
      | none => .err .typeErr
    | _ => .err .typeErr
  | .f64 =>
    match v with
    | .int _ n => (f64Round n).bind fun q => .ok (.flt .f64 q)
    | .flt _ q => .ok (.flt .f64 q)
    | .str s => (parseFloatStr s).bind fun q => .ok (.flt .f64 q)
    | _ => .err .typeErr
  | .str =>
    match v with
    | .bytes b => .ok (.str b)
    | .time u => (timeString u).bind fun b => .ok (.str b)
    -- a whole-number float is the text an object node prints (`writeObject`), not fmt's exponent form
    | .flt k q => (if isWholeSmall q then fmtFloatF k q else fmtFloatG k q).bind fun b => .ok (.str b)
    | w => (sprintR w).bind fun b => .ok (.str b)       -- `fmt.Sprint(ResolveDrops(value))`
  | .anys =>
    match v with
    | .mapSlice kvs => .ok (.slice .any (convElems (kvs.map (·.2))))
    | .range a b =>
      if b - a + 1 > 10000000 then .err .typeErr          -- maxRangeArrayLen: "range too large to convert to an array"
      -- `budget` has no counterpart in the code: it keeps the executable model from building a huge list (the
      -- driver runs with the default); the theorems hold for every budget (`Proofs/Budget.lean`)
      else if b - a > budget then .unmodelled "range of more than a million items"
      else .ok (.slice .any (rangeInts a b))
    | .slice _ xs => .ok (.slice .any (convElems xs))     -- `[]any` without a drop: by reference, and `convElems xs = xs`
    | .array _ xs => .ok (.slice .any (convElems xs))
    | .bytes s => .ok (.slice .any (s.map fun b => .int .u8 b.toNat))
    | .map _ _ kvs =>                                       -- for _, key := range SortedMapKeys(rv)
      (MapOrder.sortedMapEntries kvs).bind fun es => .ok (.slice .any (convElems (es.map (·.2))))
    | .keyedMap kvs => .ok (.slice .any (convElems ((MapOrder.sortedFields kvs).map (·.2))))   -- a map[string]any: the same
    | _ => .err .typeErr
  | .time =>
    match v with
    | .time u => .ok (.time u)
    | .str s =>
      match Cal.parseDate s with
      | .time u => .ok (.time u)
      | .reject => .err .typeErr
      | .unknown => .unmodelled "ParseDate: a string that is not one of the all-digit layouts (or `now`: the clock)"
    | _ => .err .typeErr
