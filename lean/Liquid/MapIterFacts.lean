/-!
# Map iteration sites of the Go source (DESIGN 5.4, translator T5; property C02)

Go randomises the iteration order of maps, so each place where the library iterates a map is a
potential source of output that differs from render to render. `translate/mapiter.go` lists every
such place (a `range` over a map value, `(reflect.Value).MapKeys`, `(reflect.Value).MapRange`) of the
library packages into `Liquid/Generated/MapIter.lean` on every `./check` run. The obligation
`map_iterations_audited` (`Proofs/MapIter.lean`) re-checks that each one is among the sites audited
here, each with the reason why the iteration order cannot reach the output.
-/

structure MapIterFact where
  /-- package path relative to the module -/
  pkg : String
  /-- function (closures are `outer$n`) -/
  fn : String
  /-- `range` | `MapKeys` | `MapRange` -/
  kind : String
  /-- number of such sites in the function -/
  n : Nat
  /-- the function also calls into package `sort` -/
  sorts : Bool
  deriving Repr

/-- why the order in which a site visits the entries cannot influence the result -/
inductive MapIterWhy where
  /-- the keys are collected into a slice that is sorted before anything else reads it -/
  | sortedBeforeUse
  /-- every entry is copied into a fresh map (the result is the same map whatever the order) -/
  | copiesIntoMap
  /-- a conjunction over all entries (`equalMaps`: every entry must have an equal partner); `Equal` is pure -/
  | allEntriesTest
  deriving DecidableEq, Repr

structure AuditedMapIter where
  pkg : String
  fn : String
  kind : String
  n : Nat
  why : MapIterWhy
  deriving Repr

def auditedMapIters : List AuditedMapIter := [
  -- expressions/context.go: Clone copies the bindings into a fresh map
  { pkg := "expressions", fn := "(*expressions.context).Clone", kind := "range", n := 1, why := .copiesIntoMap },
  -- render/blocks.go: ParentTags collects the parent names and sorts them (error message "not inside P1 or P2")
  { pkg := "render", fn := "(*render.blockSyntax).ParentTags", kind := "range", n := 1, why := .sortedBeforeUse },
  -- render/context.go: RenderFile copies the current bindings, then the include's own, into a fresh map
  { pkg := "render", fn := "(render.rendererContext).RenderFile", kind := "range", n := 2, why := .copiesIntoMap },
  -- render/node_context.go: newNodeContext copies the caller's bindings into the per-render map
  { pkg := "render", fn := "render.newNodeContext", kind := "range", n := 1, why := .copiesIntoMap },
  -- tags/iteration_tags.go: makeIterationKeyedMap collects the keys and sorts them
  { pkg := "tags", fn := "tags.makeIterationKeyedMap", kind := "range", n := 1, why := .sortedBeforeUse },
  -- values/convert.go: Convert to a map type builds the result map entry by entry
  { pkg := "values", fn := "values.Convert", kind := "MapKeys", n := 1, why := .copiesIntoMap },
  -- values/sort.go: SortedMapKeys is the one place where keys are read for iteration; it sorts them
  { pkg := "values", fn := "values.SortedMapKeys", kind := "MapKeys", n := 1, why := .sortedBeforeUse },
  -- values/compare.go: equalMaps is true iff every entry of a has an Equal entry in b (sizes are equal)
  { pkg := "values", fn := "values.equalMaps", kind := "MapRange", n := 1, why := .allEntriesTest },
  -- values/drop.go (fixes/nested-drops-resolved): resolveDrops copies the entries of a map that is about to be printed,
  -- each value with its drops resolved (a pure function of the value), into a fresh map[K]any; whether any entry held
  -- a drop is a disjunction over all entries. fmt prints the result with its keys sorted.
  { pkg := "values", fn := "values.resolveDrops", kind := "MapRange", n := 1, why := .copiesIntoMap },
  -- filters/standard_filters.go (same repair): eqItems on two maps is true iff every entry of a has an equal entry
  -- in b (key types and sizes are equal), as equalMaps; eqItems is pure
  { pkg := "filters", fn := "filters.eqItems", kind := "MapRange", n := 1, why := .allEntriesTest }
]

/-- a site is audited when the table lists its function and kind with at least as many sites, and,
    where the reason is "sorted before use", the function still calls into package `sort` -/
def MapIterFact.audited (f : MapIterFact) : Bool :=
  auditedMapIters.any fun a =>
    a.pkg == f.pkg && a.fn == f.fn && a.kind == f.kind && f.n ≤ a.n && (a.why != .sortedBeforeUse || f.sorts)
