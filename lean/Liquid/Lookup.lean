import Liquid.Value
import Liquid.Utf8
/-!
# Variable, property and index lookup: model of `values/value.go` (the `Value` wrappers)

`values.ValueOf` picks a wrapper by the dynamic Go type; the wrapper decides what `a.b`,
`a[i]` and `Int()` mean. The model works on the `GoVal` directly: `unwrap` is what the
wrapper's `Interface()` returns (drops resolved, pointers followed), and each operation
dispatches on the unwrapped value exactly as the wrapper methods do.
-/

namespace GoVal

/-- `ValueOf(v).Interface()`: drops are resolved, non-struct pointers followed, a nil pointer
    is nil. (A pointer to a struct keeps its pointer: `structValue` wraps it.) -/
def unwrap : GoVal → GoVal
  | .drop v => unwrap v
  | .nilPtr => .nil
  | .ptr (.drop v) => unwrap v                -- *T implements the drop interface when T does
  | .ptr (.struct fs) => .ptr (.struct fs)
  | .ptr (.range a b) => .ptr (.range a b)    -- values.Range and time.Time are structs too
  | .ptr (.time u) => .ptr (.time u)
  | .ptr v => unwrap v
  | v => v

def firstKey : Bytes := [102, 105, 114, 115, 116]
def lastKey : Bytes := [108, 97, 115, 116]
def sizeKey : Bytes := [115, 105, 122, 101]

/-- elements of an array-kind value (`arrayValue`): slices, fixed arrays and `[]byte` -/
def elems? : GoVal → Option (List GoVal)
  | .slice _ xs => some xs
  | .array _ xs => some xs
  | .bytes s => some (s.map fun b => .int .u8 b.toNat)
  | _ => none

/-- float → `int` conversion used by array indexing (`int(ix)`): truncation toward zero;
    outside the int64 range Go's result is implementation-defined -/
def truncToInt (q : Rat) : Option Int :=
  let t : Int := if q ≥ 0 then q.floor else -((-q).floor)
  if IntKind.i64.inRange t then some t else none

inductive LRes where
  | val (v : GoVal)
  | unmodelled (why : String)
  deriving Repr

/-- Go's `==` on two interface values holding `a` and `b` (used by `MapSlice` lookup):
    different dynamic types are unequal; equal types compare by value; uncomparable types panic. -/
def ifaceEq (a b : GoVal) : Option Bool :=
  match a, b with
  | .nil, .nil => some true
  | .bool x, .bool y => some (x == y)
  | .int k n, .int k' m => some (k == k' && n == m)
  | .flt k q, .flt k' r => some (k == k' && q == r)
  | .str s, .str t => some (s == t)
  | .slice _ _, .slice _ _ => none      -- possibly the same uncomparable type: may panic
  | .map _ _ _, .map _ _ _ => none
  | .bytes _, .bytes _ => none
  | .mapSlice _, .mapSlice _ => none
  | .keyedMap _, .keyedMap _ => none
  | .drop _, .drop _ => none
  | .struct _, .struct _ => none
  | .array _ _, .array _ _ => none
  | .ptr _, .ptr _ => none
  | .range a b, .range c d => some (a == c && b == d)
  | .time a, .time b => some (a == b)
  | .nilPtr, .nilPtr => some true
  | _, _ => some false

def lookupFields (fs : List (Bytes × GoVal)) (name : Bytes) : Option GoVal :=
  match fs.find? (fun kv => kv.1 == name) with
  | some kv => some kv.2
  | none => none

/-- `string(rune(n))` -/
def runeString (n : Int) : Bytes :=
  if n < 0 || n > 0x10FFFF then encodeRune 0xFFFD else encodeRune n.toNat

/-- convert an index value to a map's key type, as `ir.Convert(kt)` does when
    `ir.Type().ConvertibleTo(kt) && ir.Type().Comparable()`; `none` = not convertible -/
def convertKey (kt : Ty) (idx : GoVal) : Option (Option GoVal) :=
  match kt, idx with
  | .str, .str s => some (some (.str s))
  | .str, .int _ _ => some none                             -- an integer is not converted to a string key (no rune conversion)
  | .int k, .int _ n => if k.inRange n then some (some (.int k n)) else none   -- wrap-around: unmodelled
  | .int k, .flt _ q =>
    (match truncToInt q with
     | some t => if k.inRange t then some (some (.int k t)) else none
     | none => none)
  | .flt k, .flt _ q => some (some (.flt k q))
  | .flt k, .int _ n => some (some (.flt k (n : Rat)))      -- exact only for |n| ≤ 2^53 (guarded by callers' universe)
  | .bool, .bool b => some (some (.bool b))
  | .any, .str s => some (some (.str s))
  | .any, .int k n => some (some (.int k n))
  | .any, .flt k q => some (some (.flt k q))
  | .any, .bool b => some (some (.bool b))
  | .any, .range a b => some (some (.range a b))
  | .any, .time t => some (some (.time t))
  | .any, _ => some none                                    -- convertible but not comparable: no lookup
  | _, _ => some none

def mapFind (kvs : List (GoVal × GoVal)) (k : GoVal) : Option GoVal :=
  match kvs.find? (fun kv => ifaceEq kv.1 k == some true) with
  | some kv => some kv.2
  | none => none

def mapSliceFind : List (GoVal × GoVal) → GoVal → LRes
  | [], _ => .val .nil           -- placeholder for "not found" (callers distinguish with `mapSliceFound`)
  | (k, v) :: r, e =>
    match ifaceEq e k with
    | some true => .val v
    | some false => mapSliceFind r e
    | none => mapSliceFind r e        -- `safeEqual`: operands of an uncomparable type are unequal

/-- a name `reflect`'s `MethodByName` can find is exported: it starts with an upper-case letter (every method of
    `time.Time` and `values.Range` starts with an ASCII one) -/
def exportedName : Bytes → Bool
  | b :: _ => 65 ≤ b.toNat && b.toNat ≤ 90
  | [] => false

/-- a property of a `time.Time` or `values.Range` (or a pointer to one): these are structs without exported fields,
    so every name reads as nil, except the name of a METHOD, which `structValue.PropertyValue` invokes
    (`{{ t.Year }}`, `{{ (1..3).Len }}`). The methods of Go's `time.Time` are outside the model. -/
def methodOnly (name : GoVal) : LRes :=
  match name with
  | .str s => if exportedName s then .unmodelled "method of time.Time / values.Range invoked as a property" else .val .nil
  | _ => .val .nil

/-- `IndexValue` -/
def indexValue (recv idx : GoVal) : LRes :=
  let i := idx.unwrap
  match recv.unwrap with
  | .slice _ xs | .array _ xs => indexList xs i
  | .bytes s => indexList (s.map fun b => .int .u8 b.toNat) i
  | .map kt _ kvs =>
    (match i with
     | .nil => .val .nil
     | _ =>
       match convertKey kt i with
       | none => .unmodelled "map key conversion"
       | some none => .val .nil
       | some (some k) => .val ((mapFind kvs k).getD .nil))
  | .keyedMap kvs =>
    (match i with
     | .str s => .val ((lookupFields kvs s).getD .nil)
     | _ => .val .nil)
  | .mapSlice kvs => mapSliceFind kvs i
  | .struct fs | .ptr (.struct fs) =>
    (match i with
     | .str s => .val ((lookupFields fs s).getD .nil)
     | _ => .val .nil)
  | .range _ _ | .time _ | .ptr (.range _ _) | .ptr (.time _) => methodOnly i   -- structs without exported fields
  | _ => .val .nil
where
  indexList (xs : List GoVal) (i : GoVal) : LRes :=
    let n? : Option (Option Int) := match i with
      | .int .int n => some (some n)
      | .flt _ q => some (truncToInt q)
      | _ => none
    match n? with
    | none => .val .nil
    | some none => .unmodelled "float index out of int range"
    | some (some n) =>
      let n := if n < 0 then n + xs.length else n
      if 0 ≤ n ∧ n < xs.length then .val (xs.getD n.toNat .nil) else .val .nil

/-- `PropertyValue` with a property *name* (the index is always a Go string) -/
def propertyValue (recv : GoVal) (name : Bytes) : LRes :=
  match recv.unwrap with
  | .slice _ xs | .array _ xs => propList xs
  | .bytes s => propList (s.map fun b => .int .u8 b.toNat)
  | .map kt _ kvs =>
    let found : Option GoVal := match kt with
      | .str | .any => mapFind kvs (.str name)
      | _ => none                                  -- a string is not convertible to the key type
    (match found with
     | some v => .val v
     | none => if name == sizeKey then .val (.int .int kvs.length) else .val .nil)
  | .keyedMap kvs =>
    (match lookupFields kvs name with
     | some v => .val v
     | none => if name == sizeKey then .val (.int .int kvs.length) else .val .nil)
  | .str s => if name == sizeKey then .val (.int .int s.length) else .val .nil
  | .mapSlice kvs =>
    (match mapSliceFind kvs (.str name) with
     | .val v => if (match v with | .nil | .nilPtr => true | _ => false) && name == sizeKey then .val (.int .int kvs.length) else .val v
     | r => r)
  | .struct fs | .ptr (.struct fs) => .val ((lookupFields fs name).getD .nil)
  | .range _ _ | .time _ | .ptr (.range _ _) | .ptr (.time _) => methodOnly (.str name)
  | _ => .val .nil
where
  propList (xs : List GoVal) : LRes :=
    if name == firstKey then .val (xs.head?.getD .nil)
    else if name == lastKey then .val (xs.getLast?.getD .nil)
    else if name == sizeKey then .val (.int .int xs.length)
    else .val .nil

/-- `Value.Int()`: only a Go `int` converts; anything else is a `TypeError` (recovered) -/
def intOf (v : GoVal) : Option Int :=
  match v.unwrap with
  | .int .int n => some n
  | _ => none

/-- `Value.Test()`: `value != nil && value != false` on the wrapped interface value -/
def test (v : GoVal) : Bool :=
  match v.unwrap with
  | .nil => false
  | .bool false => false
  | _ => true

end GoVal
