import Liquid.Value
import Liquid.InsertionSort
/-!
# The order in which the library visits the entries of a Go map: `values.SortedMapKeys` (`values/sort.go`)

Go's own map iteration order is random. The two places where the library walks a map whose order reaches the
output call `values.SortedMapKeys(rv)` first — `makeIterator` (`tags/iteration_tags.go`: `for` and `tablerow`
over a map) and `Convert(·, []any)` (`values/convert.go`: the receiver of every array filter); the other map
iterations of the library copy into a fresh map or test all entries (T5, `MapIterFacts.lean`) — which is

```go
keys := m.MapKeys()
sort.SliceStable(keys, func(i, j int) bool { return keyLess(keys[i], keys[j]) })
```

This file is that comparator, clause by clause, on the model's values (integers are unbounded `Int`s
with an integer kind, floats are exact rationals, strings are byte lists), and a stable sort by it.
A `GoVal.map kt vt kvs` holds its entries `kvs` in *some* order (the order the line protocol delivered
them in; nothing is assumed about it): every place of the model that iterates a map calls
`sortedMapEntries`, as those two places of the code call `SortedMapKeys`.

`Proofs/MapOrder.lean`: on keys of classes 1–3 (booleans, numbers, strings) that are pairwise distinct
as Go map keys — two keys of one Go map always are — `keyLess` is a strict total order, so the sorted
list is the same for every order of the entries.

## Keys of class 4

Keys that are neither booleans, numbers nor strings (a nil interface, structs, arrays, pointers, …) are
ordered after all others, and among themselves by `fmt.Sprint(a) < fmt.Sprint(b)` and, where two different
keys print alike, by a form that names the type of everything they hold (`keySyntax`; repaired in /repo
08ac245 + 7d98ddf, DESIGN §7.1), which the model does not evaluate (pointer keys print as addresses). A map
with *one* such key is still ordered by the class comparison alone;
a map with two or more is answered `unmodelled` (`sortedMapEntries`).
-/

namespace MapOrder

/-- `keyClass`: 1 booleans, 2 numbers (every integer and float kind), 3 strings, 4 everything else -/
def keyClass : GoVal → Nat
  | .bool _ => 1
  | .int _ _ | .flt _ _ => 2
  | .str _ => 3
  | _ => 4

/-- `numberLess`: exact comparison of two numbers of any two types. The first four clauses are the
four integer cases of the Go function (`CanInt`/`CanUint` of either operand); a value of an unsigned
kind is never negative, and for `n ≥ 0` `uint64(n)` is `n`. Two floats compare as `float64`s
(`Float()` widens a `float32` exactly); an integer and a float compare through `big.Float`, which
holds both exactly — on the model's exact rationals all of these are `<` (NaN, for which `keyNumber`
is nil, is outside the model). -/
def numberLess : GoVal → GoVal → Bool
  | .int k n, .int k' m =>
    match k.isSigned, k'.isSigned with
    | true, true => decide (n < m)                      -- a.Int() < b.Int()
    | false, false => decide (n < m)                    -- a.Uint() < b.Uint()
    | true, false => decide (n < 0) || decide (n < m)   -- a.Int() < 0 || uint64(a.Int()) < b.Uint()
    | false, true => decide (m ≥ 0) && decide (n < m)   -- b.Int() >= 0 && a.Uint() < uint64(b.Int())
  | .flt _ q, .flt _ r => decide (q < r)                -- a.Float() < b.Float()
  | .int _ n, .flt _ r => decide ((n : Rat) < r)        -- keyNumber(a).Cmp(keyNumber(b)) < 0
  | .flt _ q, .int _ m => decide (q < (m : Rat))
  | _, _ => false

/-- `valueLess(class, a, b)`: the order of two keys of the same class by value. Class 4 is
`fmt.Sprint(a) < fmt.Sprint(b)` in Go and is not evaluated here (`sortedMapEntries` answers
`unmodelled` before two keys of class 4 could meet). -/
def valueLess (cls : Nat) (a b : GoVal) : Bool :=
  match cls, a, b with
  | 1, .bool x, .bool y => !x && y                      -- !a.Bool() && b.Bool()
  | 2, a, b => numberLess a b
  | 3, .str s, .str t => decide (s < t)                 -- a.String() < b.String(), bytewise
  | _, _, _ => false

/-- `keyTypeName`: `v.Type().String()` of the key's dynamic type (the types of `intTypes`/`fltTypes`
of `harness/codec.go`, `string`, `bool`), as ASCII bytes; empty for the values no theorem is about -/
def keyTypeName : GoVal → Bytes
  | .int .int _ => [105, 110, 116]                      -- int
  | .int .i8 _ => [105, 110, 116, 56]                   -- int8
  | .int .i16 _ => [105, 110, 116, 49, 54]              -- int16
  | .int .i32 _ => [105, 110, 116, 51, 50]              -- int32
  | .int .i64 _ => [105, 110, 116, 54, 52]              -- int64
  | .int .uint _ => [117, 105, 110, 116]                -- uint
  | .int .u8 _ => [117, 105, 110, 116, 56]              -- uint8
  | .int .u16 _ => [117, 105, 110, 116, 49, 54]         -- uint16
  | .int .u32 _ => [117, 105, 110, 116, 51, 50]         -- uint32
  | .int .u64 _ => [117, 105, 110, 116, 54, 52]         -- uint64
  | .flt .f32 _ => [102, 108, 111, 97, 116, 51, 50]     -- float32
  | .flt .f64 _ => [102, 108, 111, 97, 116, 54, 52]     -- float64
  | .str _ => [115, 116, 114, 105, 110, 103]            -- string
  | .bool _ => [98, 111, 111, 108]                      -- bool
  | _ => []

/-- `keyLess` (after the loops that unwrap interface values, which the model's values do not have):
by class; within a class by value; keys of one class that are equal by value differ in type
(`1`, `1.0` and `int64(1)` are three keys of a `map[any]any`) and are ordered by the name of the type. -/
def keyLess (a b : GoVal) : Bool :=
  let ca := keyClass a
  let cb := keyClass b
  if ca != cb then decide (ca < cb)
  else if valueLess ca a b then true
  else if valueLess ca b a then false
  else decide (keyTypeName a < keyTypeName b)

/-- the comparator on entries: by key -/
def entryLess (a b : GoVal × GoVal) : Bool := keyLess a.1 b.1

/-- The entries in the order of `SortedMapKeys`: a stable sort by `keyLess` on the key. (Go's
`sort.SliceStable` is insertion sort on blocks of 20 followed by in-place merges; every stable sort
returns the same list when the comparator is a strict weak order, and it is a strict *total* order
on the keys of one map: `Proofs/MapOrder.lean`. The model runs Go's `insertionSort`,
`Liquid/InsertionSort.lean`.) -/
def sortedEntries (kvs : List (GoVal × GoVal)) : List (GoVal × GoVal) := insertionSort entryLess kvs

/-- more than one key of class 4: their mutual order is `fmt.Sprint`'s, not modelled -/
def manyClass4 (kvs : List (GoVal × GoVal)) : Bool :=
  (kvs.filter fun kv => keyClass kv.1 == 4).length > 1

/-- what an iteration site of the library sees of a map: its entries in `SortedMapKeys` order -/
def sortedMapEntries {ε : Type} (kvs : List (GoVal × GoVal)) : Res ε (List (GoVal × GoVal)) :=
  if manyClass4 kvs then .unmodelled "map with several keys that are neither booleans, numbers nor strings: ordered by fmt.Sprint"
  else .ok (sortedEntries kvs)

/-- `sort.Strings(keys)` of `makeIterationKeyedMap`, and `SortedMapKeys` on an `IterationKeyedMap`
(a `map[string]any`: class 3 only): the fields by name, bytewise -/
def sortedFields (fs : List (Bytes × GoVal)) : List (Bytes × GoVal) :=
  insertionSort (fun a b => decide (a.1 < b.1)) fs

/-! ## The canonical order of the line protocol (`harness/codec.go`: `keyLess`, `sortKVs`)

Results that hold maps are printed with the entries in the codec's order, which is `keyLess` above on
booleans, numbers and strings, puts a nil key first and orders the remaining keys by their encoding.
It is used where the model has to *print* or *identify* a map (result lines of the driver; `uniq`,
which compares whole values), never to iterate one. -/

def codecRank : GoVal → Nat
  | .nil => 0
  | .bool _ => 1
  | .int _ _ | .flt _ _ => 2
  | .str _ => 3
  | _ => 4

def codecLess (a b : GoVal) : Bool :=
  let ra := codecRank a
  let rb := codecRank b
  if ra != rb then decide (ra < rb)
  else if ra == 1 || ra == 2 || ra == 3 then keyLess a b
  else decide (a.enc < b.enc)

mutual
/-- the value with the entries of every map (at every depth) in the codec's order -/
def canonOrder : GoVal → GoVal
  | .slice t xs => .slice t (canonOrderList xs)
  | .array t xs => .array t (canonOrderList xs)
  | .map k v kvs => .map k v (insertionSort (fun a b => codecLess a.1 b.1) (canonOrderKVs kvs))
  | .mapSlice kvs => .mapSlice (canonOrderKVs kvs)
  | .keyedMap fs => .keyedMap (sortedFields (canonOrderFields fs))
  | .ptr v => .ptr (canonOrder v)
  | .drop v => .drop (canonOrder v)
  | .struct fs => .struct (canonOrderFields fs)
  | v => v
def canonOrderList : List GoVal → List GoVal
  | [] => []
  | x :: xs => canonOrder x :: canonOrderList xs
def canonOrderKVs : List (GoVal × GoVal) → List (GoVal × GoVal)
  | [] => []
  | (k, v) :: r => (canonOrder k, canonOrder v) :: canonOrderKVs r
def canonOrderFields : List (Bytes × GoVal) → List (Bytes × GoVal)
  | [] => []
  | (k, v) :: r => (k, canonOrder v) :: canonOrderFields r
end

/-- the encoding of the value with every map in the codec's order: two values have the same `canonEnc`
    iff they have the same dynamic types and the same contents, whatever the order of their map
    entries (what Go's `==` / `reflect.DeepEqual` decide) -/
def canonEnc (v : GoVal) : String := (canonOrder v).enc

end MapOrder
