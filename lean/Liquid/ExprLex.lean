import Liquid.Value
import Liquid.F64
/-!
# The expression lexer: model of `expressions/scanner.rl`

A ragel scanner: at each position the longest match among the rules wins and ties go to the
rule listed first; when a rule that had started (e.g. an unterminated string) does not
complete, the scanner falls back to the longest rule that did match. Whitespace is skipped;
any other byte is a token of its own. `parse` appends `;` to the source.
-/

inductive ETok where
  | lit (v : GoVal)
  | ident (s : Bytes)
  | keyword (s : Bytes)       -- `identifier:`
  | property (s : Bytes)      -- `.identifier`
  | assign | cycle | loop | when
  | eq | neq | ge | le | and_ | or_ | contains | in_ | dotdot
  | ch (b : UInt8)
  deriving Repr, Inhabited

def isAlpha (b : UInt8) : Bool := (65 ≤ b && b ≤ 90) || (97 ≤ b && b ≤ 122)
def isAlnum (b : UInt8) : Bool := isAlpha b || isDigit b
/-- ragel `space`: `\t \n \v \f \r` and space -/
def isLexSpace (b : UInt8) : Bool := b == 32 || (9 ≤ b && b ≤ 13)
def isIdStart (b : UInt8) : Bool := isAlpha b || b == 95
def isIdCont (b : UInt8) : Bool := isAlnum b || b == 95 || b == 45

def spanLen (p : UInt8 → Bool) : Bytes → Nat
  | [] => 0
  | b :: bs => if p b then spanLen p bs + 1 else 0

/-- length of the literal `w` if `s` starts with it -/
def litLen (w : Bytes) (s : Bytes) : Option Nat := if isPrefixOfB w s then some w.length else none

/-- `identifier = (alpha|'_') (alnum|'_'|'-')* '?'?` -/
def identLen : Bytes → Option Nat
  | [] => none
  | b :: bs =>
    if isIdStart b then
      let n := spanLen isIdCont bs
      let q := match bs.drop n with
        | 63 :: _ => 1
        | _ => 0
      some (1 + n + q)
    else none

/-- `int = '-'? digit+` -/
def intLen (s : Bytes) : Option Nat :=
  let (sg, r) := match s with
    | 45 :: r => (1, r)
    | r => (0, r)
  let n := spanLen isDigit r
  if n == 0 then none else some (sg + n)

/-- `float = '-'? digit+ ('.' digit+)?` -/
def floatLen (s : Bytes) : Option Nat :=
  match intLen s with
  | none => none
  | some n =>
    match s.drop n with
    | 46 :: r =>
      let m := spanLen isDigit r
      if m == 0 then some n else some (n + 1 + m)
    | _ => some n

/-- `'"' (any - '"')* '"'` (same for `'`) -/
def stringLen : Bytes → Option Nat
  | q :: r =>
    if q == 34 || q == 39 then
      let n := spanLen (fun b => b != q) r
      match r.drop n with
      | _ :: _ => some (n + 2)
      | [] => none
    else none
  | [] => none

def propertyLen : Bytes → Option Nat
  | 46 :: r => (identLen r).map (· + 1)
  | _ => none

inductive Rule where
  | rAssign | rCycle | rLoop | rWhen | rInt | rFloat | rString | rBool | rNil
  | rEq | rNeq | rGe | rLe | rAnd | rOr | rContains | rIn | rDotdot
  | rKeyword | rIdent | rProperty | rSpace | rAny
  deriving Repr, DecidableEq

def kwAssign : Bytes := [37, 97, 115, 115, 105, 103, 110, 32]        -- "%assign "
def kwCycle : Bytes := [123, 37, 99, 121, 99, 108, 101, 32]          -- "{%cycle "
def kwLoop : Bytes := [37, 108, 111, 111, 112, 32]                   -- "%loop "
def kwWhen : Bytes := [123, 37, 119, 104, 101, 110, 32]              -- "{%when "
def kwTrue : Bytes := [116, 114, 117, 101]
def kwFalse : Bytes := [102, 97, 108, 115, 101]
def kwNil : Bytes := [110, 105, 108]
def kwAnd : Bytes := [97, 110, 100]
def kwOr : Bytes := [111, 114]
def kwContains : Bytes := [99, 111, 110, 116, 97, 105, 110, 115]
def kwIn : Bytes := [105, 110]

/-- every rule with the length it matches at the head of `s`, in the order of `scanner.rl` -/
def ruleMatches (s : Bytes) : List (Rule × Option Nat) :=
  [ (.rAssign, litLen kwAssign s), (.rCycle, litLen kwCycle s), (.rLoop, litLen kwLoop s), (.rWhen, litLen kwWhen s),
    (.rInt, intLen s), (.rFloat, floatLen s), (.rString, stringLen s),
    (.rBool, match litLen kwTrue s with | some n => some n | none => litLen kwFalse s),
    (.rNil, litLen kwNil s),
    (.rEq, litLen [61, 61] s), (.rNeq, litLen [33, 61] s), (.rGe, litLen [62, 61] s), (.rLe, litLen [60, 61] s),
    (.rAnd, litLen kwAnd s), (.rOr, litLen kwOr s), (.rContains, litLen kwContains s),
    (.rIn, litLen kwIn s), (.rDotdot, litLen [46, 46] s),
    (.rKeyword, match identLen s with
        | some n => (match s.drop n with | 58 :: _ => some (n + 1) | _ => none)
        | none => none),
    (.rIdent, identLen s), (.rProperty, propertyLen s),
    (.rSpace, let n := spanLen isLexSpace s; if n == 0 then none else some n),
    (.rAny, match s with | [] => none | _ => some 1) ]

/-- longest match, ties to the earlier rule -/
def bestRule (ms : List (Rule × Option Nat)) : Option (Rule × Nat) :=
  ms.foldl (fun best (r, m) =>
    match m, best with
    | some n, none => some (r, n)
    | some n, some (_, bn) => if n > bn then some (r, n) else best
    | none, _ => best) none

inductive LexErr where
  | syntax      -- a literal out of range (SyntaxError after the repair of D1)
  deriving Repr, DecidableEq

/-- the value of an integer literal: `strconv.ParseInt(tok, 10, 64)` then `int(n)` -/
def intLitValue (tok : Bytes) : Option Int :=
  let (neg, ds) := match tok with
    | 45 :: r => (true, r)
    | r => (false, r)
  let n : Nat := ds.foldl (fun acc d => acc * 10 + (d.toNat - 48)) 0
  let v : Int := if neg then -(n : Int) else (n : Int)
  if IntKind.i64.inRange v then some v else none

/-- the value of a float literal: `strconv.ParseFloat(tok, 64)`; `none` when out of range.
    A literal that denotes −0 is outside the model. -/
def floatLitValue (tok : Bytes) : Option (Option Rat) :=
  let (neg, ds) := match tok with
    | 45 :: r => (true, r)
    | r => (false, r)
  let ip := ds.takeWhile isDigit
  let fp := (ds.drop (ip.length + 1))
  let q := decimalOfDigits ip fp
  match roundF64 q with
  | none => some none                         -- out of range: error
  | some r => if neg && r == 0 then none      -- −0: unmodelled
              else some (some (if neg then -r else r))

def mkTok (r : Rule) (tok : Bytes) : Res LexErr (Option ETok) :=
  match r with
  | .rAssign => .ok (some .assign) | .rCycle => .ok (some .cycle) | .rLoop => .ok (some .loop) | .rWhen => .ok (some .when)
  | .rInt => match intLitValue tok with
      | some n => .ok (some (.lit (.int .int n)))
      | none => .err .syntax
  | .rFloat => match floatLitValue tok with
      | some (some q) => .ok (some (.lit (.flt .f64 q)))
      | some none => .err .syntax
      | none => .unmodelled "negative zero literal"
  | .rString => .ok (some (.lit (.str ((tok.drop 1).take (tok.length - 2)))))
  | .rBool => .ok (some (.lit (.bool (tok == kwTrue))))
  | .rNil => .ok (some (.lit .nil))
  | .rEq => .ok (some .eq) | .rNeq => .ok (some .neq) | .rGe => .ok (some .ge) | .rLe => .ok (some .le)
  | .rAnd => .ok (some .and_) | .rOr => .ok (some .or_) | .rContains => .ok (some .contains)
  | .rIn => .ok (some .in_) | .rDotdot => .ok (some .dotdot)
  | .rKeyword => .ok (some (.keyword (tok.take (tok.length - 1))))
  | .rIdent => .ok (some (.ident tok))
  | .rProperty => .ok (some (.property (tok.drop 1)))
  | .rSpace => .ok none
  | .rAny => match tok with
      | b :: _ => .ok (some (.ch b))
      | [] => .ok none

/-- tokenise; fuel = remaining length. Note: the yacc parser pulls tokens lazily, so a lexing
    error after the point where the parser has already failed is never raised — `lexPrefix`
    therefore returns the tokens up to the first error and the error separately. -/
def lexAux : Nat → Bytes → List ETok → (List ETok × Option (Res LexErr Unit))
  | 0, _, acc => (acc.reverse, none)
  | _, [], acc => (acc.reverse, none)
  | n+1, s@(_ :: _), acc =>
    match bestRule (ruleMatches s) with
    | none => (acc.reverse, none)
    | some (r, len) =>
      let len := max len 1
      match mkTok r (s.take len) with
      | .ok (some t) => lexAux n (s.drop len) (t :: acc)
      | .ok none => lexAux n (s.drop len) acc
      | .err e => (acc.reverse, some (.err e))
      | .panic w => (acc.reverse, some (.panic w))
      | .unmodelled w => (acc.reverse, some (.unmodelled w))

/-- tokens of `source ++ ";"` up to the first lexing failure, and that failure if any -/
def lex (source : Bytes) : List ETok × Option (Res LexErr Unit) :=
  let s := source ++ [59]
  lexAux s.length s []
