import Liquid.Parse
import Liquid.Eval
import Liquid.TrimWriter
import Liquid.MapOrder
/-!
# Compilation and rendering: model of `render/*.go` and `tags/*.go`

Rendering is an *interaction tree* of calls to the caller's writer (`Prog.call b k`: one
`w.Write(b)`, `k` receives what the writer answered), so that what the code does after a
failed write is part of the model (C20). The success path of the tree is the output.
`M` adds the per-render state: the flat variable map and the trim writer.
-/

/-! ## Errors -/

/-- what the message of a cause-less (`Errorf`-made) error says; `byCause` = the text of the cause -/
inductive Msg where
  | byCause | undefinedTag | unterminated | notInside | cycleOutside | loopMod | includeArg | tagSyntax
  deriving Repr, DecidableEq, Inhabited

/-- a `parser.Error` / `render.Error`: line, whether its path is the template's path (false =
    the empty path of `invalidLoc`), `Cause()` (`Cause.none` = nil) and what its message names -/
structure SErr where
  line : Nat
  pathSet : Bool
  cause : Cause
  msg : Msg := .byCause
  deriving Repr, DecidableEq, Inhabited

inductive RawErr where
  | plain (c : Cause)          -- an `error` that is not a `parser.Error`
  | located (e : SErr)
  deriving Repr, DecidableEq, Inhabited

/-- a `Locatable`: line and whether it carries the template's path -/
structure Loc where
  line : Nat
  pathSet : Bool := true
  deriving Repr, DecidableEq

def invalidLoc : Loc := ⟨0, false⟩

/-- `SourceLoc.IsZero`, given the path the template was parsed with -/
def Loc.isZero (path : Bytes) (l : Loc) : Bool := (!l.pathSet || path.isEmpty) && l.line == 0

/-- `parser.WrapError(err, loc)` (after the repair of D12) -/
def wrapError (path : Bytes) (err : RawErr) (loc : Loc) : SErr :=
  match err with
  | .plain c => ⟨loc.line, loc.pathSet, c, .byCause⟩
  | .located e =>
    if (e.pathSet && !path.isEmpty) || e.line != 0 || loc.isZero path then e
    else ⟨loc.line, loc.pathSet, if e.cause == .none then .other "located:none" else e.cause, e.msg⟩

/-- `parser.Errorf(loc, …)`: a located error without cause -/
def errorfAt (loc : Loc) (m : Msg) : SErr := ⟨loc.line, loc.pathSet, .none, m⟩

/-! ## The compiled tree -/

/-- a branch test; `line` is the line of the tag it belongs to (the `if`/`unless` tag or the
    `elsif` clause), where its render-time errors are located -/
inductive CondT where
  | expr (line : Nat) (e : Expr) | notExpr (line : Nat) (e : Expr) | always
  deriving Repr, Inhabited

inductive Node where
  | text (line : Nat) (src : Bytes)
  | obj (line : Nat) (e : Expr)
  | raw (slices : List Bytes)
  | trim (left : Bool)
  | assign (line : Nat) (x : Bytes) (e : Expr)
  | capture (line : Nat) (x : Bytes) (body : List Node)
  | ifB (line : Nat) (branches : List (CondT × List Node))
  | caseB (line : Nat) (subject : Expr) (cases : List (Option (Nat × List Expr) × List Node))
  | loop (line : Nat) (tablerow : Bool) (var : Bytes) (e : Expr) (mods : LoopMods)
         (body : List Node) (clauses : List (List Node))
  | cycle (line : Nat) (group : Bytes) (first : Bytes) (rest : List Bytes)
  | brk (line : Nat)
  | cont (line : Nat)
  | incl (line : Nat) (args : Bytes)
  deriving Repr, Inhabited

def nmIf : Bytes := [105, 102]
def nmUnless : Bytes := [117, 110, 108, 101, 115, 115]
def nmCase : Bytes := [99, 97, 115, 101]
def nmFor : Bytes := [102, 111, 114]
def nmTablerow : Bytes := [116, 97, 98, 108, 101, 114, 111, 119]
def nmCapture : Bytes := [99, 97, 112, 116, 117, 114, 101]
def nmElse : Bytes := [101, 108, 115, 101]
def nmElsif : Bytes := [101, 108, 115, 105, 102]
def nmWhen : Bytes := [119, 104, 101, 110]
def nmAssign : Bytes := [97, 115, 115, 105, 103, 110]
def nmInclude : Bytes := [105, 110, 99, 108, 117, 100, 101]
def nmBreak : Bytes := [98, 114, 101, 97, 107]
def nmContinue : Bytes := [99, 111, 110, 116, 105, 110, 117, 101]
def nmCycle : Bytes := [99, 121, 99, 108, 101]
def nmForloop : Bytes := [102, 111, 114, 108, 111, 111, 112]

/-- compile-time result: a located error or a value -/
abbrev CRes (α : Type) := Res SErr α

def liftParse {α} (line : Nat) (keepCause : Bool) : Res ParseErr α → CRes α
  | .ok a => .ok a
  | .err _ => .err (if keepCause then ⟨line, true, .syntax, .byCause⟩ else ⟨line, true, .none, .tagSyntax⟩)
  | .panic w => .panic w
  | .unmodelled w => .unmodelled w

/-- the tests of an `if`/`unless` block's clauses (compiled after all bodies) -/
def compileIfClauseTests : List (Token × List Node) → CRes (List (CondT × List Node))
  | [] => .ok []
  | (t, body) :: cs => do
    let test ← (if t.name == nmElsif then do
        let e ← liftParse t.line true (parseExprSource t.args)
        pure (CondT.expr t.line e)
      else pure CondT.always : CRes CondT)
    let rest ← compileIfClauseTests cs
    pure ((test, body) :: rest)

def compileCaseClauses : List (Token × List Node) → CRes (List (Option (Nat × List Expr) × List Node))
  | [] => .ok []
  | (t, body) :: cs => do
    let c ← (if t.name == nmWhen then do
        let st ← liftParse t.line true (parseStatement kwWhen t.args)
        match st with
        | .when es => pure (some (t.line, es))
        | _ => .err ⟨t.line, true, .syntax, .byCause⟩
      else pure none : CRes (Option (Nat × List Expr)))
    let rest ← compileCaseClauses cs
    pure ((c, body) :: rest)

mutual
/-- model of `Config.compileNode`: bodies first, then clause bodies, then the block's own
    arguments, then the clauses' arguments. `comment` blocks never reach here. -/
def compileNode : AST → CRes (List Node)
  | .text t => .ok [.text t.line t.source]
  | .obj t =>
    -- the object was parsed by `parseTokens` already; re-parse to obtain the tree
    (match parseExprSource t.args with
     | .ok e => .ok [.obj t.line e]
     | .err _ => .err ⟨t.line, true, .syntax, .byCause⟩
     | .panic w => .panic w
     | .unmodelled w => .unmodelled w)
  | .trim l => .ok [.trim l]
  | .raw sl => .ok [.raw sl]
  | .tag t =>
    if t.name == nmAssign then do
      let st ← liftParse t.line false (parseStatement kwAssign t.args)
      match st with
      | .assign x e => pure [.assign t.line x e]
      | _ => .err ⟨t.line, true, .none, .tagSyntax⟩
    else if t.name == nmInclude then .ok [.incl t.line t.args]
    else if t.name == nmBreak then .ok [.brk t.line]
    else if t.name == nmContinue then .ok [.cont t.line]
    else if t.name == nmCycle then do
      let st ← liftParse t.line false (parseStatement kwCycle t.args)
      match st with
      | .cycle g v0 vs => pure [.cycle t.line g v0 vs]
      | _ => .err ⟨t.line, true, .none, .tagSyntax⟩
    else .err ⟨t.line, true, .none, .undefinedTag⟩
  | .block t body clauses => do
    let b ← compileList body
    let cs ← compileClauses clauses
    if t.name == nmIf || t.name == nmUnless then do
      let e ← liftParse t.line true (parseExprSource t.args)
      let first : CondT := if t.name == nmIf then .expr t.line e else .notExpr t.line e
      let rest ← compileIfClauseTests cs
      pure [.ifB t.line ((first, b) :: rest)]
    else if t.name == nmCase then do
      let e ← liftParse t.line true (parseExprSource t.args)
      let cases ← compileCaseClauses cs
      pure [.caseB t.line e cases]
    else if t.name == nmFor || t.name == nmTablerow then do
      let st ← liftParse t.line true (parseStatement kwLoop t.args)
      match st with
      | .loop x e m => pure [.loop t.line (t.name == nmTablerow) x e m b (cs.map (·.2))]
      | _ => .err ⟨t.line, true, .syntax, .byCause⟩
    else if t.name == nmCapture then pure [.capture t.line t.args b]
    else .unmodelled "block without a standard compiler"
def compileList : List AST → CRes (List Node)
  | [] => .ok []
  | n :: ns => do
    let a ← compileNode n
    let b ← compileList ns
    pure (a ++ b)
def compileClauses : List (Token × List AST) → CRes (List (Token × List Node))
  | [] => .ok []
  | (t, body) :: cs => do
    let b ← compileList body
    let rest ← compileClauses cs
    pure ((t, b) :: rest)
end

/-- `chk` of `parseTokens`: `expressions.Parse` on an object's arguments -/
def objChk (args : Bytes) : Option Cause :=
  match parseExprSource args with
  | .ok _ => none
  | _ => some .syntax

def liftPErr : Res PErr α → CRes α
  | .ok a => .ok a
  | .err e => .err (match e.kind with
      | .objSyntax c => ⟨e.line, true, c, .byCause⟩
      | .tagSyntax c => ⟨e.line, true, c, .byCause⟩
      | .notInside => ⟨e.line, true, .none, .notInside⟩
      | .unterminated => ⟨e.line, true, .none, .unterminated⟩
      | .undefinedTag => ⟨e.line, true, .none, .undefinedTag⟩)
  | .panic w => .panic w
  | .unmodelled w => .unmodelled w

/-- objects whose arguments are outside the lexer model must surface as `unmodelled`, not as errors -/
def firstUnmodelledObj : List Token → Option String
  | [] => none
  | t :: ts =>
    if t.ty == .obj then
      match parseExprSource t.args with
      | .unmodelled w => some w
      | _ => firstUnmodelledObj ts
    else firstUnmodelledObj ts

/-- model of `render.Config.Compile(source, loc)` -/
def compileSource (delims : List Bytes) (src : Bytes) (line : Nat) : CRes (List Node) :=
  let toks := scan delims src line
  match firstUnmodelledObj toks with
  | some w => .unmodelled w
  | none => do
    let ast ← liftPErr (parseTokens stdGrammar objChk toks)
    compileList ast

/-! ## The interaction tree -/

inductive WriteRes where
  | ok
  | failed (accepted : Nat)
  deriving Repr

inductive Prog (α : Type) where
  | ret (a : α)
  | fail (e : RawErr)
  | panic (why : String)
  | unmodelled (why : String)
  | call (b : Bytes) (k : WriteRes → Prog α)

namespace Prog
def bind {α β} : Prog α → (α → Prog β) → Prog β
  | .ret a, f => f a
  | .fail e, _ => .fail e
  | .panic w, _ => .panic w
  | .unmodelled w, _ => .unmodelled w
  | .call b k, f => .call b (fun r => (k r).bind f)

/-- handle a failure (used where a node wraps the error of its children) -/
def mapFail {α} (g : RawErr → RawErr) : Prog α → Prog α
  | .ret a => .ret a
  | .fail e => .fail (g e)
  | .panic w => .panic w
  | .unmodelled w => .unmodelled w
  | .call b k => .call b (fun r => (k r).mapFail g)

/-- catch a failure and continue -/
def tryCatch {α} (p : Prog α) (h : RawErr → Prog α) : Prog α :=
  match p with
  | .ret a => .ret a
  | .fail e => h e
  | .panic w => .panic w
  | .unmodelled w => .unmodelled w
  | .call b k => .call b (fun r => tryCatch (k r) h)

/-- the underlying write calls on the success path -/
def calls {α} : Prog α → List Bytes
  | .call b k => b :: calls (k .ok)
  | _ => []

inductive Outcome (α : Type) where
  | ok (a : α) | err (e : RawErr) | panic (w : String) | unmodelled (w : String)
  deriving Repr

/-- run against a writer that never fails: everything written, and the outcome -/
def runPure {α} : Prog α → Bytes × Outcome α
  | .ret a => ([], .ok a)
  | .fail e => ([], .err e)
  | .panic w => ([], .panic w)
  | .unmodelled w => ([], .unmodelled w)
  | .call b k => let (out, o) := runPure (k .ok); (b ++ out, o)
end Prog

structure Cfg where
  strict : Bool := false
  path : Bytes := []
  delims : List Bytes := []
  /-- NOT part of the semantics and without a counterpart in the Go code (which iterates a range lazily, without
      limit): the largest `b - a` for which the EXECUTABLE model materialises the items of a loop over `(a..b)`;
      beyond it `loopItems` answers `unmodelled`. The driver runs with the default; the theorems are stated for
      every value of it (`Proofs/Budget.lean`: raising it never changes an answer that was given). -/
  budget : Int := 100000
  deriving Repr, Inhabited

structure RS where
  env : Env
  tw : TW
  deriving Repr

abbrev M (α : Type) := RS → Prog (α × RS)

namespace M
def pure {α} (a : α) : M α := fun s => .ret (a, s)
def bind {α β} (m : M α) (f : α → M β) : M β := fun s => (m s).bind (fun (a, s') => f a s')
instance : Monad M := { pure := M.pure, bind := M.bind }
def fail {α} (e : RawErr) : M α := fun _ => .fail e
def getEnv : M Env := fun s => .ret (s.env, s)
def setVar (x : Bytes) (v : GoVal) : M Unit := fun s => .ret ((), { s with env := s.env.set x v })
def getVar (x : Bytes) : M GoVal := fun s => .ret (s.env.get x, s)
def mapFail {α} (g : RawErr → RawErr) (m : M α) : M α := fun s => (m s).mapFail g
/-- lift an evaluation result; evaluation errors are plain errors -/
def ofRes {α} : Res Cause α → M α
  | .ok a => pure a
  | .err c => fail (.plain c)
  | .panic w => fun _ => .panic w
  | .unmodelled w => fun _ => .unmodelled w
end M

/-! ## Trim-writer operations with their failure continuations -/

/-- `tw.Flush()` -/
def flushM : M Unit := fun s =>
  if s.tw.buf.isEmpty then .ret ((), s)
  else .call s.tw.buf fun
    | .ok => .ret ((), { s with tw := { s.tw with buf := [] } })
    | .failed _ => .fail (.plain .io)

/-- `tw.Write(b)` (what `io.WriteString(w, …)` and `fmt.Fprintf(w, …)` do on a trim writer) -/
def writeM (b : Bytes) : M Unit := fun s =>
  let b' := if s.tw.trim then trimLeftSpace b else b
  if s.tw.buf.isEmpty then .ret ((), { s with tw := { buf := b', trim := false } })
  else .call s.tw.buf fun
    | .ok => .ret ((), { s with tw := { buf := b', trim := false } })
    | .failed _ => .fail (.plain .io)

/-- `tw.TrimLeft()`: always one underlying call, possibly with zero bytes -/
def trimLeftM : M Unit := fun s =>
  .call (trimRightSpace s.tw.buf) fun
    | .ok => .ret ((), { s with tw := { s.tw with buf := [] } })
    | .failed _ => .fail (.plain .io)

def trimRightM : M Unit := fun s => .ret ((), { s with tw := { s.tw with trim := true } })

/-- run `m` against a private in-memory writer (capture, include): the text it rendered,
    including the final flush; the outer trim writer is untouched -/
def captureM {α} (m : M α) : M (α × Bytes) := fun s =>
  let p := (m { env := s.env, tw := {} }).bind (fun (a, s1) => (flushM s1).bind (fun (_, s2) => .ret (a, s2)))
  match p.runPure with
  | (out, .ok (a, s2)) => .ret ((a, out), { s with env := s2.env })
  | (_, .err e) => .fail e
  | (_, .panic w) => .panic w
  | (_, .unmodelled w) => .unmodelled w

/-! ## Values as output -/

/-- what the renderer needs from the value layer besides `Prims` -/
structure OutPrims where
  /-- the sequence of `w.Write` calls that `writeObject(w, value)` makes (`Liquid/Std.lean`) -/
  chunks : GoVal → Res Cause (List Bytes)

/-- `tw.WriteVerbatim(b)` (`render/trimwriter.go`, repair `fixes/verbatim-output-not-trimmed`):
    `tw.trim = false; tw.Write(b); tw.Flush()` — output that is not literal text of the template
    (the value of an object, the body of a raw block, what a tag writes: `TagNode.render` hands the tag
    `verbatimWriter{w}`, here the `cycle` value and the output of an included file). In terms of the
    other operations it is
    `Write ""` (drops a pending right trim without applying it and flushes the text pending
    before), `Write b` (flag clear, buffer empty: no call, `b` buffered unchanged), `Flush`
    (`b` goes out at once, one call unless `b` is empty, so a later `TrimLeft` finds nothing of it);
    the underlying calls and the failure points are those of the Go method. -/
def writeVerbatimM (b : Bytes) : M Unit := do writeM []; writeM b; flushM

/-- the `Write` calls of `writeObject` / of a raw node on `verbatimWriter{w}`: one `WriteVerbatim`
    per chunk (none for nil or an empty array: then a pending right trim stays pending) -/
def writeAllM : List Bytes → M Unit
  | [] => pure ()
  | c :: cs => do writeVerbatimM c; writeAllM cs

/-! ## Loops -/

def mkPair (k v : GoVal) : GoVal := .slice .any [k, v]

def rangeItems (a b : Int) : List GoVal :=
  if b < a then [] else (List.range (b - a + 1).toNat).map fun (i : Nat) => GoVal.int .int (a + (i : Int))

/-- `makeIterator` (after the repairs of D9 and D15): the items a loop visits. A map is visited in the
    order of `values.SortedMapKeys` (`MapOrder.sortedMapEntries`: the entry list of the value is in no
    particular order), an `IterationKeyedMap` in the order of `sort.Strings` of its keys. -/
def loopItems (budget : Int) : GoVal → Res Cause (List GoVal)
  -- the Go code iterates a range lazily and has no limit: `budget` (`Cfg.budget`) only keeps the executable model
  -- from building a huge list; every theorem holds for every budget
  | .range a b => if b - a > budget then .unmodelled "huge range" else .ok (rangeItems a b)
  | .nil => .ok []
  | .keyedMap kvs => .ok ((MapOrder.sortedFields kvs).map fun kv => GoVal.str kv.1)   -- makeIterationKeyedMap: sort.Strings(keys)
  | .mapSlice kvs => .ok (kvs.map fun kv => mkPair kv.1 kv.2)
  | .slice _ xs => .ok xs
  | .array _ xs => .ok xs
  | .bytes s => .ok (s.map fun b => GoVal.int .u8 b.toNat)
  | .map _ _ kvs =>                                                    -- for i, k := range values.SortedMapKeys(rv)
    (MapOrder.sortedMapEntries kvs).bind fun es => .ok (es.map fun kv => mkPair kv.1 kv.2)
  | _ => .ok []

def dotCycles : Bytes := [46, 99, 121, 99, 108, 101, 115]

def strKey (s : String) : GoVal := .str s.toUTF8.toList

/-- the `forloop` record of iteration `i` of `n`, keys in sorted order -/
def forloopRec (i n : Nat) (cycles : List (GoVal × GoVal)) : GoVal :=
  .map .str .any [
    (.str dotCycles, .map .str .priv cycles),
    (.str [102, 105, 114, 115, 116], .bool (i == 0)),                         -- first
    (.str [105, 110, 100, 101, 120], .int .int (i + 1)),                      -- index
    (.str [105, 110, 100, 101, 120, 48], .int .int i),                        -- index0
    (.str [108, 97, 115, 116], .bool (i + 1 == n)),                           -- last
    (.str [108, 101, 110, 103, 116, 104], .int .int n),                       -- length
    (.str [114, 105, 110, 100, 101, 120], .int .int (n - i)),                 -- rindex
    (.str [114, 105, 110, 100, 101, 120, 48], .int .int ((n : Int) - i - 1))  -- rindex0
  ]

def natBytes (n : Nat) : Bytes := (toString n).toUTF8.toList

/-- `tableRowDecorator.before` -/
def tablerowBefore (cols i : Nat) : M Unit := do
  let row := i / cols
  let col := i % cols
  if col == 0 then
    writeM (bs "<tr class=\"row" ++ natBytes (row + 1) ++ bs "\">")
  writeM (bs "<td class=\"col" ++ natBytes (col + 1) ++ bs "\">")

/-- `tableRowDecorator.after` -/
def tablerowAfter (cols i l : Nat) : M Unit := do
  writeM (bs "</td>")
  if (i + 1) % cols == 0 || i + 1 == l then
    writeM (bs "</tr>")

/-- the cycle counters of the current `forloop` record: `.cycles` of the value bound to `forloop`,
    provided it has the renderer's own unexported type `cycleCounters` (`.map .str .priv`): a record
    bound by the caller, whatever its shape, is not accepted (`cycle must be within a forloop`) -/
def cyclesOf (v : GoVal) : Option (List (GoVal × GoVal) × (List (GoVal × GoVal) → GoVal)) :=
  match v with
  | .map .str .any kvs =>
    (match kvs with
     | (.str k, .map .str .priv cyc) :: rest =>
       if k == dotCycles then some (cyc, fun c => .map .str .any ((.str k, .map .str .priv c) :: rest)) else none
     | _ => none)
  | _ => none

def cycleGet (cyc : List (GoVal × GoVal)) (g : Bytes) : Nat :=
  match cyc.find? (fun kv => match kv.1 with | .str k => k == g | _ => false) with
  | some (_, .int _ n) => n.toNat
  | _ => 0

/-- insert keeping the keys sorted bytewise (the codec's canonical order) -/
def cycleSet : List (GoVal × GoVal) → Bytes → Nat → List (GoVal × GoVal)
  | [], g, n => [(.str g, .int .int n)]
  | (.str k, v) :: r, g, n =>
    if k == g then (.str k, .int .int n) :: r
    else if decide (g < k) then (.str g, .int .int n) :: (.str k, v) :: r
    else (.str k, v) :: cycleSet r g n
  | kv :: r, g, n => kv :: cycleSet r g n

/-! ## Rendering

`break` and `continue` travel as Go errors (`ctx.WrapError(errLoopBreak)`), are re-wrapped by
every enclosing node like any error, and are recognised by the innermost loop through
`Cause()`. Unlike a real failure they do not end the render, so the model carries them as a
`Status` next to the state instead of as a `Prog.fail`. -/

inductive Status where
  | done
  | brk (e : SErr)
  | cont (e : SErr)
  deriving Repr, DecidableEq, Inhabited

/-- `wrapRenderError(err, node)` applied to whatever a node's body returned -/
def Status.wrap (path : Bytes) (loc : Loc) : Status → Status
  | .done => .done
  | .brk e => .brk (wrapError path (.located e) loc)
  | .cont e => .cont (wrapError path (.located e) loc)

/-- a node wraps both the failures and the loop sentinels of what it runs -/
def wrapAt (path : Bytes) (loc : Loc) (m : M Status) : M Status :=
  fun s => ((m s).mapFail (fun e => .located (wrapError path e loc))).bind
    (fun (st, s') => .ret (st.wrap path loc, s'))

/-- wrap failures only (for actions that cannot yield a sentinel) -/
def wrapFailAt {α} (path : Bytes) (loc : Loc) (m : M α) : M α :=
  M.mapFail (fun e => .located (wrapError path e loc)) m

/-- `Not(e)` / `Constant(true)` / a parsed condition, then Go's `value != nil && value != false` -/
def evalCond (P : Prims) (path : Bytes) (t : CondT) : M Bool := do
  let env ← M.getEnv
  match t with
  | .always => pure true
  | .expr line e => wrapFailAt path ⟨line, true⟩ (do let v ← M.ofRes (evaluate P env e); pure v.test)
  | .notExpr line e => wrapFailAt path ⟨line, true⟩ (do let v ← M.ofRes (evaluate P env e); pure !v.test)

/-- file system as seen by `include`: `os.ReadFile` and the engine's template cache -/
inductive FileRes where
  | content (b : Bytes) | notExist | otherError
  deriving Repr

structure FS where
  read : Bytes → FileRes
  cache : Bytes → Option Bytes

/-- `filepath.Clean` for POSIX paths -/
def cleanPath (p : Bytes) : Bytes :=
  if p.isEmpty then [46] else
  let rooted := p.head? == some 47
  let parts := (p.splitOn 47).filter (fun c => !c.isEmpty && c != [46])
  let step (acc : List Bytes) (c : Bytes) : List Bytes :=     -- acc reversed
    if c == [46, 46] then
      match acc with
      | [] => if rooted then [] else [c]
      | top :: rest => if top == [46, 46] then c :: acc else rest
    else c :: acc
  let out := (parts.foldl step []).reverse
  let body := [47].intercalate out
  if rooted then 47 :: body else if body.isEmpty then [46] else body

/-- `filepath.Dir` -/
def dirPath (p : Bytes) : Bytes :=
  let rev := p.reverse.dropWhile (· != 47)       -- up to and including the last slash
  cleanPath rev.reverse

/-- `filepath.Join(a, b)` -/
def joinPath (a b : Bytes) : Bytes :=
  let parts := [a, b].filter (fun c => !c.isEmpty)
  if parts.isEmpty then [] else cleanPath ([47].intercalate parts)

structure RCtx where
  P : Prims
  O : OutPrims
  cfg : Cfg
  /-- `ctx.RenderFile(filename)` for the include tag at `line`, with the current variables -/
  inc : Nat → Bytes → Env → Prog (Status × Bytes)

/-- the `defer` of `loopRenderer.render`: restore `forloop` and the loop variable -/
def restoreLoopVars (var : Bytes) (prevLoop prevVar : GoVal) : M Unit := do
  M.setVar nmForloop prevLoop
  M.setVar var prevVar

/-- the iterations of one loop execution. `cyc` is the per-execution cycle map. -/
def iterateM (var : Bytes) (cols : Option Nat) (body : M Status) (n : Nat) :
    List GoVal → Nat → List (GoVal × GoVal) → M Status
  | [], _, _ => pure .done
  | x :: xs, i, cyc => do
    M.setVar var x
    M.setVar nmForloop (forloopRec i n cyc)
    (match cols with
     | some c => tablerowBefore c i
     | none => pure ())
    let st ← body
    (match cols with
     | some c => tablerowAfter c i n
     | none => pure ())
    -- the cycle tag updates `.cycles` of the record bound to `forloop`
    let cur ← M.getVar nmForloop
    let cyc' := match cyclesOf cur with
      | some (c, _) => c
      | none => cyc
    match st with
    | .brk _ => pure .done
    | _ => iterateM var cols body n xs (i + 1) cyc'

def intModifier (P : Prims) (e : Option Expr) (blockLoc : Loc) : M (Option Int) :=
  match e with
  | none => pure none
  | some ex => do
    let env ← M.getEnv
    let v ← M.ofRes (evaluate P env ex)
    match v with
    | .int .int n => pure (some n)
    | _ => M.fail (.located (errorfAt blockLoc .loopMod))        -- "loop offset/limit/cols must be an integer"

/-- `applyLoopModifiers`: reverse, then skip `offset` (when positive), then take `limit`
    (when not negative) -/
def selectItems (reversed : Bool) (off lim : Option Int) (xs : List GoVal) : List GoVal :=
  let a := if reversed then xs.reverse else xs
  let b := match off with
    | some o => if o > 0 then a.drop o.toNat else a
    | none => a
  match lim with
  | some l => if l ≥ 0 then b.take l.toNat else b
  | none => b

/-- `makeLoopDecorator`: the number of columns of a tablerow (`none` for a plain `for`) -/
def tablerowCols (P : Prims) (tablerow : Bool) (cols : Option Expr) (loc : Loc) : M (Option Nat) :=
  if tablerow then do
    let cv ← intModifier P cols loc
    match cv with
    | some n => pure (some (if n > 0 then n.toNat else 2147483647))
    | none => pure (some 2147483647)
  else pure none

/-- run the iterations of one loop execution, then the deferred restore -/
def loopIterate (P : Prims) (loc : Loc) (tablerow : Bool) (var : Bytes) (colsE : Option Expr) (bodyM : M Status)
    (items : List GoVal) : M Status := do
  let cols ← tablerowCols P tablerow colsE loc
  let prevLoop ← M.getVar nmForloop
  let prevVar ← M.getVar var
  let st ← iterateM var cols bodyM items.length items 0 []
  restoreLoopVars var prevLoop prevVar
  pure st

/-- the `else` clause renders exactly when nothing is selected (and there is an `else`) -/
def loopDispatch (P : Prims) (loc : Loc) (tablerow : Bool) (var : Bytes) (colsE : Option Expr) (bodyM : M Status)
    (elseM : Option (M Status)) (items : List GoVal) : M Status :=
  match items, elseM with
  | [], some els => els
  | _, _ => loopIterate P loc tablerow var colsE bodyM items

/-- the renderer built by `loopTagCompiler`, given the rendering of its body and of its `else`
    clause (`tooMany`: the block has more than one clause). Order as in the Go code: collection,
    iterator, modifiers, clause-count check, `else` when nothing is selected, iterations, restore. -/
def loopRun (budget : Int) (P : Prims) (path : Bytes) (loc : Loc) (tablerow : Bool) (var : Bytes) (e : Expr) (mods : LoopMods)
    (bodyM : M Status) (tooMany : Bool) (elseM : Option (M Status)) : M Status :=
  wrapAt path loc (do
    let env ← M.getEnv
    let v ← M.ofRes (evaluate P env e)
    let items0 ← M.ofRes (loopItems budget v)
    let off ← intModifier P mods.offset loc
    let lim ← intModifier P mods.limit loc
    if tooMany then M.fail (.plain (.other "forElse")) else
    loopDispatch P loc tablerow var mods.cols bodyM elseM (selectItems mods.reversed off lim items0))

mutual
def renderNode (c : RCtx) : Node → M Status
  | .text line src => wrapFailAt c.cfg.path ⟨line, true⟩ (do writeM src; pure .done)
  | .obj line e => wrapFailAt c.cfg.path ⟨line, true⟩ (do
      let env ← M.getEnv
      let v ← M.ofRes (evaluate c.P env e)
      if v.isNil && c.cfg.strict then M.fail (.plain (.other "undefinedVariable")) else do
      let chunks ← M.ofRes (c.O.chunks v)
      writeAllM chunks
      pure .done)
  | .raw slices => wrapFailAt c.cfg.path invalidLoc (do writeAllM slices; pure .done)
  | .trim true => wrapFailAt c.cfg.path invalidLoc (do trimLeftM; pure .done)
  | .trim false => do trimRightM; pure .done
  | .assign line x e => wrapFailAt c.cfg.path ⟨line, true⟩ (do
      let env ← M.getEnv
      let v ← M.ofRes (evaluate c.P env e)
      M.setVar x v
      pure .done)
  | .capture line x body => wrapAt c.cfg.path ⟨line, true⟩ (do
      let (st, out) ← captureM (renderList c body)
      match st with
      | .done => do M.setVar x (.str out); pure .done
      | st => pure st)
  | .ifB line branches => wrapAt c.cfg.path ⟨line, true⟩ (renderBranches c branches)
  | .caseB line subject cases => wrapAt c.cfg.path ⟨line, true⟩ (do
      let env ← M.getEnv
      let sel ← M.ofRes (evaluate c.P env subject)
      renderCases c sel cases)
  | .loop line tablerow var e mods body clauses =>
    let bodyM := renderBlockBody c body
    match clauses with
    | [] => loopRun c.cfg.budget c.P c.cfg.path ⟨line, true⟩ tablerow var e mods bodyM false none
    | [els] => loopRun c.cfg.budget c.P c.cfg.path ⟨line, true⟩ tablerow var e mods bodyM false (some (renderBlockBody c els))
    | _ :: _ :: _ => loopRun c.cfg.budget c.P c.cfg.path ⟨line, true⟩ tablerow var e mods bodyM true none
  | .cycle line group v0 rest =>
    let loc : Loc := ⟨line, true⟩
    wrapFailAt c.cfg.path loc (do
      let lv ← M.getVar nmForloop
      match cyclesOf lv with
      | none => M.fail (.located (errorfAt loc .cycleOutside))          -- "cycle must be within a forloop"
      | some (cyc, rebuild) =>
        let n := cycleGet cyc group
        M.setVar nmForloop (rebuild (cycleSet cyc group (n + 1)))
        -- `TagNode.render` hands the tag `verbatimWriter{w}`: what a tag writes is not literal text
        writeVerbatimM ((v0 :: rest).getD (n % (rest.length + 1)) v0)
        pure .done)
  | .brk line => pure (.brk (wrapError c.cfg.path (.located (wrapError c.cfg.path (.plain .brk) ⟨line, true⟩)) ⟨line, true⟩))
  | .cont line => pure (.cont (wrapError c.cfg.path (.located (wrapError c.cfg.path (.plain .cont) ⟨line, true⟩)) ⟨line, true⟩))
  | .incl line args =>
    let loc : Loc := ⟨line, true⟩
    wrapAt c.cfg.path loc (do
      let env ← M.getEnv
      let e ← M.ofRes ((parseExprSource args).mapErr (fun _ => Cause.syntax))
      let v ← M.ofRes (evaluate c.P env e)
      match v with
      | .str rel =>
        let filename := joinPath (dirPath c.cfg.path) rel
        let (st, out) ← (fun s => (c.inc line filename env).bind (fun r => .ret (r, s)) : M (Status × Bytes))
        (match st with
         | .done => do writeVerbatimM out; pure .done   -- the tag's writer is `verbatimWriter{w}`
         | st => pure st)
      | _ => M.fail (.located (errorfAt loc .includeArg)))             -- "include requires a string argument"
def renderList (c : RCtx) : List Node → M Status
  | [] => pure .done
  | n :: ns => do
    let st ← renderNode c n
    match st with
    | .done => renderList c ns
    | st => pure st
/-- `ctx.RenderBlock` / `RenderChildren` on the shared trim writer: the sequence, then a flush -/
def renderBlockBody (c : RCtx) (body : List Node) : M Status := do
  let st ← renderList c body
  match st with
  | .done => do wrapFailAt c.cfg.path invalidLoc flushM; pure .done
  | st => pure st
def renderBranches (c : RCtx) : List (CondT × List Node) → M Status
  | [] => pure .done
  | (t, body) :: rest => do
    let b ← evalCond c.P c.cfg.path t
    if b then renderBlockBody c body else renderBranches c rest
def renderCases (c : RCtx) (sel : GoVal) : List (Option (Nat × List Expr) × List Node) → M Status
  | [] => pure .done
  | (none, body) :: _ => renderBlockBody c body
  | (some (line, es), body) :: rest => do
    let hit ← wrapFailAt c.cfg.path ⟨line, true⟩ (whenMatches c sel es)
    if hit then renderBlockBody c body else renderCases c sel rest
def whenMatches (c : RCtx) (sel : GoVal) : List Expr → M Bool
  | [] => pure false
  | e :: es => do
    let env ← M.getEnv
    let v ← M.ofRes (evaluate c.P env e)
    let eq ← M.ofRes (c.P.equalFn sel v)
    if eq then pure true else whenMatches c sel es
end

/-- `render.Render(root, w, vars, cfg)`: the root sequence, then the final flush -/
def renderRoot (c : RCtx) (root : List Node) (env : Env) : Prog Status :=
  ((renderList c root) { env := env, tw := {} }).bind fun (st, s) =>
    match st with
    | .done => ((wrapFailAt c.cfg.path invalidLoc flushM) s).bind fun _ => .ret .done
    | st => .ret st

/-- `ctx.RenderFile`: read (disk first, cache only when the file does not exist), compile with
    the include tag's location, render with a copy of the variables into a private buffer -/
def renderFileWith (P : Prims) (O : OutPrims) (cfg : Cfg) (fs : FS)
    (inner : Nat → Bytes → Env → Prog (Status × Bytes)) (line : Nat) (filename : Bytes) (env : Env) :
    Prog (Status × Bytes) :=
  let src? : Except Cause Bytes := match fs.read filename with
    | .content b => .ok b
    | .notExist => (match fs.cache filename with
        | some b => .ok b
        | none => .error (.other "notExist"))
    | .otherError => .error .io
  match src? with
  | .error c => .fail (.plain c)
  | .ok src =>
    match compileSource cfg.delims src line with
    | .err e => .fail (.located e)
    | .panic w => .panic w
    | .unmodelled w => .unmodelled w
    | .ok root =>
      let c : RCtx := { P := P, O := O, cfg := cfg, inc := inner }
      match (renderRoot c root env).runPure with
      | (out, .ok .done) => .ret (.done, out)
      | (_, .ok st) => .ret (st, [])
      | (_, .err e) => .fail e
      | (_, .panic w) => .panic w
      | (_, .unmodelled w) => .unmodelled w

/-- `maxIncludeDepth` of `render/context.go`: the number of include tags a render may be nested in -/
def maxIncludeDepth : Nat := 100

/-- the plain error of `RenderFile` at `depth >= maxIncludeDepth`
    (`fmt.Errorf("include nesting too deep (more than %d levels) at %s", …)`) -/
def includeDepthErr : RawErr := .plain .includeDepth

/-- `ctx.RenderFile` of a render nested in `maxIncludeDepth - fuel` include tags: the fuel IS
    `maxIncludeDepth - ctx.depth`. At fuel 0 (`depth >= maxIncludeDepth`) the handler refuses with
    the depth error BEFORE the file is read; at fuel n+1 the file is rendered with `depth + 1`,
    i.e. with the fuel-n handler inside. -/
def incFuel (P : Prims) (O : OutPrims) (cfg : Cfg) (fs : FS) : Nat → Nat → Bytes → Env → Prog (Status × Bytes)
  | 0 => fun _ _ _ => .fail includeDepthErr
  | n+1 => renderFileWith P O cfg fs (incFuel P O cfg fs n)

def mkCtx (P : Prims) (O : OutPrims) (cfg : Cfg) (fs : FS) (fuel : Nat) : RCtx :=
  { P := P, O := O, cfg := cfg, inc := incFuel P O cfg fs fuel }

/-- a sentinel that reaches the top is an ordinary error -/
def statusToProg : Status → Prog Unit
  | .done => .ret ()
  | .brk e => .fail (.located e)
  | .cont e => .fail (.located e)

/-- `Template.FRender(w, vars)` for a template compiled from `src` -/
def frender (P : Prims) (O : OutPrims) (cfg : Cfg) (fs : FS) (fuel : Nat) (root : List Node) (env : Env) : Prog Unit :=
  (renderRoot (mkCtx P O cfg fs fuel) root env).bind statusToProg

inductive RunResult where
  | ok (out : Bytes)
  | err (e : SErr)
  | panic (w : String)
  | unmodelled (w : String)
  deriving Repr

/-- `Engine.ParseTemplateLocation` + `Template.Render`: output, or a located error and no output -/
def run (P : Prims) (O : OutPrims) (cfg : Cfg) (fs : FS) (fuel : Nat) (src : Bytes) (line : Nat) (env : Env) : RunResult :=
  match compileSource cfg.delims src line with
  | .err e => .err e
  | .panic w => .panic w
  | .unmodelled w => .unmodelled w
  | .ok root =>
    match (frender P O cfg fs fuel root env).runPure with
    | (out, .ok _) => .ok out
    | (_, .err (.located e)) => .err e
    | (_, .err (.plain c)) => .err ⟨0, false, c, .byCause⟩       -- cannot happen: every node wraps (see `frender_err_located`)
    | (_, .panic w) => .panic w
    | (_, .unmodelled w) => .unmodelled w
