import Liquid.TokenReSrc
/-!
# Driver ops `rex` / `rexs` (stream `rex`, DESIGN 5.4): an expression printed by `Re.toGoSyntax` and
matched by the model's matcher, to be compared with `regexp.Compile` of the same text and Go's
`FindStringSubmatchIndex`.

Prefix code of expressions (harness/stream_rex.go): `E` eps, `e<hh>` byte, `n<hh>` any byte but, `s` `\s`,
`w` `\w`, `d` `.`, `a` `(?s:.)`, `S<r><r>` seq, `A<r><r>` alt, `G<r>` greedy star, `L<r>` lazy star,
`P<n>:<r>` capture group `n`.
-/

namespace Rex

def digitsOf : List Char → Nat → Nat × List Char
  | c :: r, acc => if c.isDigit then digitsOf r (acc * 10 + (c.toNat - 48)) else (acc, c :: r)
  | [], acc => (acc, [])

/-- decode one expression; the fuel bounds the nesting (the length of the text suffices) -/
def decode : Nat → List Char → Option (Re × List Char)
  | 0, _ => none
  | _+1, [] => none
  | fuel+1, c :: r =>
    match c with
    | 'E' => some (.eps, r)
    | 's' => some (.chr .space, r)
    | 'w' => some (.chr .word, r)
    | 'd' => some (.chr .anyNoNL, r)
    | 'a' => some (.chr .any, r)
    | 'e' => match r with
      | h :: l :: r' => some (.chr (.eq (hexVal h * 16 + hexVal l)), r')
      | _ => none
    | 'n' => match r with
      | h :: l :: r' => some (.chr (.ne (hexVal h * 16 + hexVal l)), r')
      | _ => none
    | 'S' => match decode fuel r with
      | some (x, r1) => match decode fuel r1 with
        | some (y, r2) => some (.seq x y, r2)
        | none => none
      | none => none
    | 'A' => match decode fuel r with
      | some (x, r1) => match decode fuel r1 with
        | some (y, r2) => some (.alt x y, r2)
        | none => none
      | none => none
    | 'G' => (decode fuel r).map fun (x, r1) => (.star true x, r1)
    | 'L' => (decode fuel r).map fun (x, r1) => (.star false x, r1)
    | 'P' =>
      match digitsOf r 0 with
      | (n, ':' :: r1) => (decode fuel r1).map fun (x, r2) => (.group n x, r2)
      | _ => none
    | _ => none

def showInt (n : Nat) : String := toString n

/-- `FindStringSubmatchIndex`: start and end of the match, then of groups `1..n` (`-1,-1` when unset) -/
def showMatch (re : Re) (input : Bytes) : String :=
  match re.search (input.length + 1) input 0 0 with
  | none => "-"
  | some (skip, e, caps) =>
    let n := re.groupOrder.length
    let groups := (List.range n).map fun i =>
      match caps.find (i + 1) with
      | some (a, b) => s!"{a},{b}"
      | none => "-1,-1"
    ",".intercalate (s!"{skip},{e}" :: groups)

def answer (re : Re) (input : Bytes) : String :=
  -- the printed text numbers the groups by their opening parentheses: outside 1, 2, 3, … the text would
  -- not denote the expression
  if re.groupOrder != (List.range re.groupOrder.length).map (· + 1) then "unmodelled group numbering" else
  "ok " ++ hexField re.toGoSyntax ++ " " ++ showMatch re input

def run (enc inp : String) : String :=
  match decode (enc.length + 1) enc.toList with
  | some (re, []) => answer re (hexDecode inp)
  | _ => "unmodelled expression code"

def runScan (delims : List Bytes) (inp : String) : String :=
  answer (tokenRe (Delims.ofList delims)) (hexDecode inp)

end Rex
