import Liquid.Basic
/-!
# A leftmost-first backtracking regular-expression matcher (DESIGN §4.1)

Models the semantics Go's `regexp` documents for its non-POSIX mode: "the match that a
backtracking engine would have found first". Continuation-passing style, structurally
recursive on the expression; `star` runs a fuel-bounded loop whose iterations must consume
input. Positions are absolute byte offsets carried next to the remaining suffix, so no
function ever recomputes a length.
-/

inductive Pred where
  | eq (b : UInt8) | ne (b : UInt8) | space | word | anyNoNL | any
  deriving Repr, DecidableEq, Inhabited

def Pred.test : Pred → UInt8 → Bool
  | .eq b, c => c == b
  | .ne b, c => c != b
  | .space, c => c == 32 || c == 9 || c == 10 || c == 12 || c == 13
  | .word, c => (48 ≤ c && c ≤ 57) || (65 ≤ c && c ≤ 90) || (97 ≤ c && c ≤ 122) || c == 95
  | .anyNoNL, c => c != 10
  | .any, _ => true

inductive Re where
  | chr (p : Pred) | eps | seq (a b : Re) | alt (a b : Re)
  | star (greedy : Bool) (a : Re) | group (i : Nat) (a : Re)
  deriving Repr, Inhabited

/-- a capture: group index, absolute start and end offsets -/
structure Cap where
  idx : Nat
  s : Nat
  e : Nat
  deriving Repr, DecidableEq

abbrev Caps := List Cap

def Caps.find (c : Caps) (i : Nat) : Option (Nat × Nat) :=
  match c.find? (fun x => x.idx == i) with
  | some x => some (x.s, x.e)
  | none => none

/-- continuation: remaining suffix, absolute position, captures -/
abbrev K (R : Type) := Bytes → Nat → Caps → Option R

/-- star loop: fuel-bounded; an iteration must advance the position. -/
def starLoop {R : Type} (ma : Bytes → Nat → Caps → K R → Option R) (greedy : Bool) :
    Nat → Bytes → Nat → Caps → K R → Option R
  | 0, s, p, c, k => k s p c
  | n+1, s, p, c, k =>
    let more := fun (_ : Unit) =>
      ma s p c (fun s' p' c' => if p < p' then starLoop ma greedy n s' p' c' k else none)
    if greedy then
      match more () with
      | some r => some r
      | none => k s p c
    else
      match k s p c with
      | some r => some r
      | none => more ()

def Re.m {R : Type} (fuel : Nat) : Re → Bytes → Nat → Caps → K R → Option R
  | .chr pr, s, p, c, k => match s with
      | [] => none
      | x :: xs => if pr.test x then k xs (p+1) c else none
  | .eps, s, p, c, k => k s p c
  | .seq a b, s, p, c, k => a.m fuel s p c (fun s' p' c' => b.m fuel s' p' c' k)
  | .alt a b, s, p, c, k => match a.m fuel s p c k with
      | some r => some r
      | none => b.m fuel s p c k
  | .star g a, s, p, c, k => starLoop (fun s p c k => a.m fuel s p c k) g fuel s p c k
  | .group i a, s, p, c, k => a.m fuel s p c (fun s' p' c' => k s' p' (⟨i, p, p'⟩ :: c'))

/-- match at the head of `s` (which sits at absolute offset `p`): end offset and captures -/
def Re.matchAt (fuel : Nat) (re : Re) (s : Bytes) (p : Nat) : Option (Nat × Caps) :=
  re.m fuel s p [] (fun _ p' c => some (p', c))

/-- leftmost match at or after the head of `s`: (bytes skipped, end offset, captures).
    Tail recursive. -/
def Re.search (fuel : Nat) (re : Re) : Bytes → Nat → Nat → Option (Nat × Nat × Caps)
  | [], _, _ => none     -- the token regexps never match the empty string
  | x :: xs, p, skipped =>
    match re.matchAt fuel (x :: xs) p with
    | some (e, c) => some (skipped, e, c)
    | none => re.search fuel xs (p+1) (skipped+1)

/-! ## Derived forms -/
def Re.lit (s : Bytes) : Re := s.foldr (fun b acc => Re.seq (.chr (.eq b)) acc) .eps
def Re.opt (a : Re) : Re := .alt a .eps            -- greedy `?`
def Re.plusLazy (a : Re) : Re := .seq a (.star false a)
def Re.plus (a : Re) : Re := .seq a (.star true a)
def Re.alts : List Re → Re
  | [] => .eps                 -- the empty pattern
  | [a] => a
  | a :: as => .alt a (Re.alts as)

/-! ## The continuation is only ever called further to the right, within the input -/

theorem starLoop_bounds {R} (ma : Bytes → Nat → Caps → K R → Option R)
    (hma : ∀ s p c k r, ma s p c k = some r →
        ∃ n c', n ≤ s.length ∧ k (s.drop n) (p+n) c' = some r)
    (g : Bool) : ∀ n s p c k r, starLoop ma g n s p c k = some r →
        ∃ m c', m ≤ s.length ∧ k (s.drop m) (p+m) c' = some r := by
  intro n
  induction n with
  | zero => intro s p c k r h; exact ⟨0, c, Nat.zero_le _, by simpa [starLoop] using h⟩
  | succ n ih =>
    intro s p c k r h
    have hmore : ∀ r, ma s p c (fun s' p' c' => if p < p' then starLoop ma g n s' p' c' k else none) = some r →
        ∃ m c', m ≤ s.length ∧ k (s.drop m) (p+m) c' = some r := by
      intro r hr
      obtain ⟨n1, c1, hn1, hk1⟩ := hma _ _ _ _ _ hr
      split at hk1
      · obtain ⟨n2, c2, hn2, hk2⟩ := ih _ _ _ _ _ hk1
        refine ⟨n1 + n2, c2, ?_, ?_⟩
        · simp only [List.length_drop] at hn2; omega
        · simpa [List.drop_drop, Nat.add_assoc, Nat.add_comm n2 n1] using hk2
      · cases hk1
    unfold starLoop at h
    simp only at h
    cases g with
    | true =>
      simp only [if_true] at h
      split at h
      · next r' hr' => cases h; exact hmore _ hr'
      · exact ⟨0, c, Nat.zero_le _, by simpa using h⟩
    | false =>
      simp only [Bool.false_eq_true, if_false] at h
      split at h
      · next r' hr' => cases h; exact ⟨0, c, Nat.zero_le _, by simpa using hr'⟩
      · exact hmore _ h

theorem Re.m_bounds {R} (fuel : Nat) : ∀ (re : Re) s p c (k : K R) r, re.m fuel s p c k = some r →
    ∃ n c', n ≤ s.length ∧ k (s.drop n) (p+n) c' = some r := by
  intro re
  induction re with
  | chr pr =>
    intro s p c k r h
    unfold Re.m at h
    split at h
    · cases h
    · next x xs =>
      split at h
      · exact ⟨1, c, by simp, by simpa using h⟩
      · cases h
  | eps => intro s p c k r h; exact ⟨0, c, Nat.zero_le _, by simpa [Re.m] using h⟩
  | seq a b iha ihb =>
    intro s p c k r h
    unfold Re.m at h
    obtain ⟨n1, c1, hn1, h1⟩ := iha _ _ _ _ _ h
    obtain ⟨n2, c2, hn2, h2⟩ := ihb _ _ _ _ _ h1
    refine ⟨n1 + n2, c2, ?_, ?_⟩
    · simp only [List.length_drop] at hn2; omega
    · simpa [List.drop_drop, Nat.add_assoc, Nat.add_comm n2 n1] using h2
  | alt a b iha ihb =>
    intro s p c k r h
    unfold Re.m at h
    split at h
    · next r' hr' => cases h; exact iha _ _ _ _ _ hr'
    · exact ihb _ _ _ _ _ h
  | star g a iha =>
    intro s p c k r h
    unfold Re.m at h
    exact starLoop_bounds _ (fun s p c k r h => iha s p c k r h) g _ _ _ _ _ _ h
  | group i a iha =>
    intro s p c k r h
    unfold Re.m at h
    obtain ⟨n1, c1, hn1, h1⟩ := iha _ _ _ _ _ h
    exact ⟨n1, _, hn1, h1⟩

/-- A match found at `p` ends between `p` and the end of the input. -/
theorem Re.matchAt_bounds (fuel : Nat) (re : Re) (s : Bytes) (p e : Nat) (c : Caps)
    (h : re.matchAt fuel s p = some (e, c)) : p ≤ e ∧ e ≤ p + s.length := by
  unfold Re.matchAt at h
  obtain ⟨n, c', hn, hk⟩ := Re.m_bounds fuel re s p [] _ _ h
  simp only [Option.some.injEq, Prod.mk.injEq] at hk
  omega

theorem Re.search_bounds (fuel : Nat) (re : Re) : ∀ (s : Bytes) (p sk n e : Nat) (c : Caps),
    re.search fuel s p sk = some (n, e, c) →
      sk ≤ n ∧ p + (n - sk) ≤ e ∧ e ≤ p + s.length := by
  intro s
  induction s with
  | nil => intro p sk n e c h; simp [Re.search] at h
  | cons x xs ih =>
    intro p sk n e c h
    unfold Re.search at h
    split at h
    · next e' c' hm =>
      simp only [Option.some.injEq, Prod.mk.injEq] at h
      obtain ⟨rfl, rfl, rfl⟩ := h
      have := Re.matchAt_bounds fuel re _ _ _ _ hm
      simp only [List.length_cons] at this ⊢
      omega
    · have := ih _ _ _ _ _ h
      simp only [List.length_cons]
      omega
