/-!
# Basic types shared by the whole model

* `Bytes` — Go strings are byte strings; template sources are arbitrary bytes.
* `Res`   — panic-aware result type (DESIGN §3.2): `ok | err | panic | unmodelled`.
* hex codec for the line protocol.
-/

abbrev Bytes := List UInt8

namespace Bytes
def ofString (s : String) : Bytes := s.toUTF8.toList
def toStringLossy (b : Bytes) : String := String.fromUTF8! ⟨b.toArray⟩
end Bytes

/-- `bs "abc"` : the UTF-8 bytes of a literal. -/
def bs (s : String) : Bytes := s.toUTF8.toList

/-- The cause carried by an error (the model of Go's dynamic error types, mapped to a small enum;
the harness canonicalises real errors to the same enum). -/
inductive Cause where
  | syntax                      -- expressions.SyntaxError
  | typeErr                     -- values.TypeError
  | interp                      -- expressions.InterpreterError
  | undefinedFilter (name : Bytes)
  | filterErr (name : Bytes) (inner : Cause)
  | parity                      -- *values.CallParityError
  | divZero
  | io                          -- an error returned by the caller's writer
  | brk | cont                  -- the loop sentinels
  | other (tag : String)        -- plain errors.New / fmt.Errorf, identified by a short tag
  | none                        -- Cause() == nil
  deriving Repr, DecidableEq, Inhabited

/-- the cause of the error `RenderFile` returns when includes are nested deeper than
    `maxIncludeDepth` (`render/context.go`): a plain `fmt.Errorf` error -/
@[reducible] def Cause.includeDepth : Cause := .other "includeDepth"

/-- Panic-aware result. `unmodelled` marks the explicit boundary of the model. -/
inductive Res (ε : Type) (α : Type) where
  | ok (a : α)
  | err (e : ε)
  | panic (why : String)
  | unmodelled (what : String)
  deriving Repr

namespace Res
variable {ε α β : Type}

@[inline] def bind (x : Res ε α) (f : α → Res ε β) : Res ε β :=
  match x with
  | ok a => f a
  | err e => err e
  | panic w => panic w
  | unmodelled w => unmodelled w

instance : Monad (Res ε) where
  pure := ok
  bind := bind

def isPanic : Res ε α → Bool
  | panic _ => true
  | _ => false

def isOk : Res ε α → Bool
  | ok _ => true
  | _ => false

def mapErr {ε'} (f : ε → ε') : Res ε α → Res ε' α
  | ok a => ok a
  | err e => err (f e)
  | panic w => panic w
  | unmodelled w => unmodelled w

@[simp] theorem bind_ok (a : α) (f : α → Res ε β) : (ok a : Res ε α).bind f = f a := rfl
@[simp] theorem bind_err (e : ε) (f : α → Res ε β) : (err e : Res ε α).bind f = err e := rfl
@[simp] theorem bind_panic (w : String) (f : α → Res ε β) : (panic w : Res ε α).bind f = panic w := rfl
@[simp] theorem bind_unmodelled (w : String) (f : α → Res ε β) :
    (unmodelled w : Res ε α).bind f = unmodelled w := rfl
@[simp] theorem pure_eq (a : α) : (pure a : Res ε α) = ok a := rfl
@[simp] theorem bind_eq (x : Res ε α) (f : α → Res ε β) : (x >>= f) = x.bind f := rfl
end Res

/-! ## Hex codec (line protocol) -/

def hexDigit (n : UInt8) : Char :=
  if n < 10 then Char.ofNat (48 + n.toNat) else Char.ofNat (87 + n.toNat)

def hexEncode (b : Bytes) : String :=
  String.ofList (b.foldr (fun x acc => hexDigit (x / 16) :: hexDigit (x % 16) :: acc) [])

/-- an empty byte string is written `-` so that every field is non-empty -/
def hexField (b : Bytes) : String := if b.isEmpty then "-" else hexEncode b

def hexVal (c : Char) : UInt8 :=
  let n := c.toNat
  if n ≥ 97 then (n - 87).toUInt8 else if n ≥ 65 then (n - 55).toUInt8 else (n - 48).toUInt8

def hexDecodeChars : List Char → Bytes
  | a :: b :: rest => (hexVal a * 16 + hexVal b) :: hexDecodeChars rest
  | _ => []

def hexDecode (s : String) : Bytes := if s == "-" then [] else hexDecodeChars s.toList

/-! ## Small byte utilities -/

def countNL (b : Bytes) : Nat := b.count 10

def isPrefixOfB : Bytes → Bytes → Bool
  | [], _ => true
  | _ :: _, [] => false
  | a :: as, b :: bs => a == b && isPrefixOfB as bs

theorem isPrefixOfB_iff (p s : Bytes) : isPrefixOfB p s = true ↔ p <+: s := by
  induction p generalizing s with
  | nil => simp [isPrefixOfB]
  | cons a as ih =>
    cases s with
    | nil => simp [isPrefixOfB]
    | cons b bs =>
      simp only [isPrefixOfB, Bool.and_eq_true, beq_iff_eq, ih, List.cons_prefix_cons]

def isDigit (b : UInt8) : Bool := 48 ≤ b && b ≤ 57
