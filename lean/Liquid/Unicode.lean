import Liquid.Utf8
/-!
# Case mapping (`unicode.ToUpper` / `unicode.ToLower`) on a modelled table

Go's case tables are not reproduced. The model knows the mapping of

* ASCII (U+0000–U+007F),
* Latin-1 Supplement (U+0080–U+00FF) **except** U+00B5 MICRO SIGN (upper-cases to U+039C),
  U+00DF SHARP S and U+00FF (upper-cases to U+0178), whose images leave the block,
* General Punctuation U+2000–U+206F (no cased letters),
* U+1F300–U+1F6FF (pictographs and emoticons; no cased letters),
* U+FFFD (what an invalid byte decodes to).

`none` = outside the table (the filter models answer `unmodelled`). The table is closed under
both maps, which is what `upcase_idem` / `downcase_idem` need. The `strf` stream compares every
rune of the table with the real `strings.ToUpper` / `ToLower` on every run.
-/

/-- the runes whose case mapping is modelled -/
def caseModelled (r : Rune) : Bool :=
  r < 0xB5 || (0xB5 < r && r < 0xDF) || (0xDF < r && r < 0xFF) ||
  (0x2000 ≤ r && r ≤ 0x206F) || (0x1F300 ≤ r && r ≤ 0x1F6FF) || r == 0xFFFD

/-- `unicode.ToUpper` on the modelled table -/
def upperRune (r : Rune) : Option Rune :=
  if !caseModelled r then none
  else if 0x61 ≤ r && r ≤ 0x7A then some (r - 32)
  else if 0xE0 ≤ r && r ≤ 0xFE && r != 0xF7 then some (r - 32)
  else some r

/-- `unicode.ToLower` on the modelled table -/
def lowerRune (r : Rune) : Option Rune :=
  if !caseModelled r then none
  else if 0x41 ≤ r && r ≤ 0x5A then some (r + 32)
  else if 0xC0 ≤ r && r ≤ 0xDE && r != 0xD7 then some (r + 32)
  else some r
