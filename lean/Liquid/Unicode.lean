import Liquid.Utf8
import Liquid.Generated.CaseTables
/-!
# Case mapping (`unicode.ToUpper` / `unicode.ToLower`) on every rune

`strings.ToUpper` / `strings.ToLower` map each rune with `unicode.ToUpper` / `unicode.ToLower`: the *simple*
case mapping of the Unicode data the Go standard library carries (one rune to one rune, no `ß → SS`, no
locale: U+0130 and U+0131 are mapped as UnicodeData.txt says, `İ → i`, `ı → I`). That mapping is not part
of the repository under verification; it belongs to the toolchain the engine is built with. Translator T6
(`translate/casetables`, DESIGN 5.4) calls both functions on every rune U+0000..U+10FFFF on every check run
and writes the result as range tables (`Liquid/Generated/CaseTables.lean`: `upperRanges`, `lowerRanges`,
a few hundred ranges, Unicode 15.0.0 with go1.23). The model looks a rune up there; every rune has an answer.

`upperRune` / `lowerRune` keep the `Option` type they had when the table was partial (the filter models and
the `sort_natural` keys are written over it); they answer `some` everywhere (`upperRune_total`,
`Proofs/CaseTables.lean`). What the theorems need of the tables — images are scalar values, both maps are
idempotent — is computed over the ranges in `Proofs/CaseTables.lean` and re-checked whenever the tables change.
The `strf` stream compares the lookup with the real filters on every rune (thorough tier) or on every rune of
every range, the range borders and a random sample (quick tier).
-/

/-- `unicode.ToUpper` -/
def toUpperRune (r : Rune) : Rune := caseLookup upperRanges r

/-- `unicode.ToLower` -/
def toLowerRune (r : Rune) : Rune := caseLookup lowerRanges r

/-- `unicode.ToUpper`, in the shape the filter models use (`some` on every rune) -/
def upperRune (r : Rune) : Option Rune := some (toUpperRune r)

/-- `unicode.ToLower`, in the shape the filter models use (`some` on every rune) -/
def lowerRune (r : Rune) : Option Rune := some (toLowerRune r)
