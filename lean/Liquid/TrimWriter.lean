import Liquid.Utf8
/-!
# The trim writer: model of `render/trimwriter.go`

`TW.step` returns, next to the new state, the list of *underlying* `w.Write` calls the
operation makes on the success path (this is what makes "the k-th Write call" of C20
definable). `Write` always flushes the previous buffer, and strips leading `unicode.IsSpace` runes of the
new bytes when the trim flag is set; `TrimLeft` writes the right-trimmed
buffer even when it is empty; `Flush` writes only a non-empty buffer.
-/

inductive WOp where
  | write (b : Bytes)
  | trimLeft
  | trimRight
  | flush
  deriving Repr, DecidableEq, Inhabited

structure TW where
  buf : Bytes := []
  trim : Bool := false
  deriving Repr, DecidableEq, Inhabited

/-- one operation on the success path: new state and the underlying writes it issues -/
def TW.step (t : TW) : WOp → TW × List Bytes
  | .write b =>
    ({ buf := if t.trim then trimLeftSpace b else b, trim := false }, if t.buf.isEmpty then [] else [t.buf])
  | .trimLeft => ({ t with buf := [] }, [trimRightSpace t.buf])
  | .trimRight => ({ t with trim := true }, [])
  | .flush => ({ t with buf := [] }, if t.buf.isEmpty then [] else [t.buf])

/-- run a list of operations: final state and all underlying writes, in order -/
def TW.run (t : TW) : List WOp → TW × List Bytes
  | [] => (t, [])
  | op :: ops =>
    let (t1, w1) := t.step op
    let (t2, w2) := TW.run t1 ops
    (t2, w1 ++ w2)

/-- the bytes a fault-free writer has received after `ops` followed by the final flush of `Render` -/
def runOps (ops : List WOp) : Bytes :=
  let (t, ws) := TW.run {} (ops ++ [.flush])
  let _ := t
  ws.flatten

/-- the list of underlying write calls of `ops` followed by the final flush -/
def writeCalls (ops : List WOp) : List Bytes := (TW.run {} (ops ++ [.flush])).2

/-- `tw.WriteVerbatim(b)` = `tw.trim = false; tw.Write(b); tw.Flush()` in terms of the other methods: an empty
    `Write` (drops a pending right trim without applying it, flushes what was pending: one call unless nothing was),
    the `Write` of `b` (flag clear, buffer empty: no call, `b` buffered unchanged), a `Flush` (`b` goes out: one call
    unless `b` is empty). Same final state, same underlying calls; compared with the real method by the `tw` stream
    (operation `v<hex>`). -/
def verbatimOps (b : Bytes) : List WOp := [.write [], .write b, .flush]

def eraseTrims (ops : List WOp) : List WOp :=
  ops.filter fun | .trimLeft | .trimRight => false | _ => true

/-! ## Line protocol: `tw <ops>` where ops = comma-separated `w<hex>` | `L` | `R` | `F` | `v<hex>` -/

def WOp.parse (s : String) : Option WOp :=
  match s.toList with
  | ['L'] => some .trimLeft
  | ['R'] => some .trimRight
  | ['F'] => some .flush
  | 'w' :: h => some (.write (hexDecodeChars h))
  | _ => none

/-- one field of a `tw` case line: `v<hex>` is `WriteVerbatim`, the others are single operations -/
def WOp.parseOps (s : String) : List WOp :=
  match s.toList with
  | 'v' :: h => verbatimOps (hexDecodeChars h)
  | _ => (WOp.parse s).toList

def showCalls (ws : List Bytes) : String :=
  if ws.isEmpty then "-" else ",".intercalate (ws.map fun w => "w" ++ hexEncode w)
