import Liquid.Regex
/-!
# The template tokenizer: model of `parser/scanner.go` (`Scan`, `formTokenMatcher`)

`scan d src line` is a line-by-line port of `Scan`: the gap before a match becomes a text
token, the match becomes an object or tag token (decided by the *prefix of the source*, as the
code does), hyphens are detected at fixed offsets relative to the delimiter lengths, and the
running line number advances by the newlines of everything emitted so far.
-/

structure Delims where
  ol : Bytes
  or : Bytes
  tl : Bytes
  tr : Bytes
  deriving Repr, DecidableEq, Inhabited

/-- `{{ }} {% %}` as explicit bytes (so that `decide` can evaluate examples in the kernel) -/
def Delims.default : Delims := ⟨[123, 123], [125, 125], [123, 37], [37, 125]⟩

/-- `Scan`'s defaulting: a slice that does not have exactly four entries selects the defaults;
    an empty entry selects the default of its position. -/
def Delims.ofList : List Bytes → Delims
  | [a, b, c, d] =>
    ⟨if a.isEmpty then Delims.default.ol else a,
     if b.isEmpty then Delims.default.or else b,
     if c.isEmpty then Delims.default.tl else c,
     if d.isEmpty then Delims.default.tr else d⟩
  | _ => Delims.default

inductive TokTy where
  | text | tag | obj | trimL | trimR
  deriving Repr, DecidableEq, Inhabited

structure Token where
  ty : TokTy
  line : Nat := 0
  name : Bytes := []
  args : Bytes := []
  source : Bytes := []
  deriving Repr, DecidableEq, Inhabited

/-- `[^t0]|t0[^t1]|t0t1[^t2]…` — anything that is not the beginning of the closing delimiter. -/
def exclAlts (tr : Bytes) : List Re :=
  (List.range tr.length).filterMap fun i =>
    match tr[i]? with
    | some b => some (Re.seq (Re.lit (tr.take i)) (.chr (.ne b)))
    | none => none

def sp : Re := .star true (.chr .space)
def hy : Re := Re.opt (.chr (.eq 45))

/-- model of the pattern built by `formTokenMatcher`:
    `OL-?\s*((?s:.+?))\s*-?OR | TL-?\s*(\w+)(?:\s+((?:EXCL)+?))?\s*-?TR` -/
def tokenRe (d : Delims) : Re :=
  let objRe := Re.seq (Re.lit d.ol) (.seq hy (.seq sp (.seq (.group 1 (Re.plusLazy (.chr .any)))
                (.seq sp (.seq hy (Re.lit d.or))))))
  let tagRe := Re.seq (Re.lit d.tl) (.seq hy (.seq sp (.seq (.group 2 (Re.plus (.chr .word)))
                (.seq (Re.opt (.seq (Re.plus (.chr .space)) (.group 3 (Re.plusLazy (Re.alts (exclAlts d.tr))))))
                (.seq sp (.seq hy (Re.lit d.tr)))))))
  .alt objRe tagRe

/-- `data[a:b]` expressed on the token's own source (which starts at absolute offset `ts`) -/
def subAt (src : Bytes) (ts a b : Nat) : Bytes := (src.drop (a - ts)).take (b - a)

def isHyphenAt (src : Bytes) (i : Nat) : Bool := src[i]? == some 45

/-- the tokens `Scan` appends for one match whose source is `src` (at offset `ts`) -/
def tokensOfMatch (d : Delims) (src : Bytes) (ts : Nat) (caps : Caps) (line : Nat) : List Token :=
  if isPrefixOfB d.ol src then
    let args := match caps.find 1 with
      | some (a, b) => subAt src ts a b
      | none => []
    (if isHyphenAt src d.ol.length then [{ ty := .trimL }] else []) ++
    [{ ty := .obj, line := line, args := args, source := src }] ++
    (if isHyphenAt src (src.length - d.or.length - 1) then [{ ty := .trimR }] else [])
  else if isPrefixOfB d.tl src then
    let name := match caps.find 2 with
      | some (a, b) => subAt src ts a b
      | none => []
    let args := match caps.find 3 with
      | some (a, b) => if a > 0 then subAt src ts a b else []
      | none => []
    (if isHyphenAt src d.tl.length then [{ ty := .trimL }] else []) ++
    [{ ty := .tag, line := line, name := name, args := args, source := src }] ++
    (if isHyphenAt src (src.length - d.tr.length - 1) then [{ ty := .trimR }] else [])
  else []

/-- the name of the tag token that `tokensOfMatch` emits for this match (`none` when it emits an
    object or nothing): `Scan` decides object / tag by the prefix of the source -/
def tagNameOfMatch (d : Delims) (src : Bytes) (ts : Nat) (caps : Caps) : Option Bytes :=
  if isPrefixOfB d.ol src then none
  else if isPrefixOfB d.tl src then
    some (match caps.find 2 with
      | some (a, b) => subAt src ts a b
      | none => [])
  else none

def nameRaw : Bytes := [114, 97, 119]                          -- "raw"
def nameComment : Bytes := [99, 111, 109, 109, 101, 110, 116]  -- "comment"
def nameEnd : Bytes := [101, 110, 100]                         -- "end"

/-- model of the pattern built by `formEndTagMatcher`: `TL-?\s*NAME\s*-?TR` -/
def endTagRe (d : Delims) (name : Bytes) : Re :=
  Re.seq (Re.lit d.tl) (.seq hy (.seq sp (.seq (Re.lit name) (.seq sp (.seq hy (Re.lit d.tr))))))

/-- after a tag named `raw` or `comment`: the number of bytes before the first end tag of that
    block in `rest` (which sits at absolute offset `p`); 0 when there is no such tag ahead, or
    when the match was not such a tag. These bytes become one text token. -/
def lexSkip (mfuel : Nat) (d : Delims) (name : Option Bytes) (rest : Bytes) (p : Nat) : Nat :=
  match name with
  | some n =>
    if n == nameRaw || n == nameComment then
      match (endTagRe d (nameEnd ++ n)).search mfuel rest p 0 with
      | some (a, _, _) => a
      | none => 0
    else 0
  | none => 0

/-- the match loop of `Scan` (one `FindStringSubmatchIndex` from the end of the previous match per
    round, which is what `FindAll` does), generic in the regexp. `s` is the unread suffix at
    absolute offset `p`; `n` bounds the number of matches. After a `raw` / `comment` tag the
    bytes up to the block's end tag are one text token (`lexSkip`). -/
def scanLoop (mfuel : Nat) (re : Re) (d : Delims) : Nat → Bytes → Nat → Nat → List Token
  | 0, s, _, line => if s.isEmpty then [] else [{ ty := .text, line := line, source := s }]
  | n+1, s, p, line =>
    match re.search mfuel s p 0 with
    | none => if s.isEmpty then [] else [{ ty := .text, line := line, source := s }]
    | some (skip, e, caps) =>
      let ts := p + skip
      let pre := s.take skip
      let src := (s.drop skip).take (e - ts)
      let rest := s.drop (skip + (e - ts))
      let line1 := line + countNL pre
      let line2 := line1 + countNL src
      (if pre.isEmpty then [] else [{ ty := .text, line := line, source := pre }]) ++
      tokensOfMatch d src ts caps line1 ++
      (if e ≤ ts then   -- an empty match: cannot happen for a token regexp; stop scanning
         (if rest.isEmpty then [] else [{ ty := .text, line := line2, source := rest }])
       else
         let a := lexSkip mfuel d (tagNameOfMatch d src ts caps) rest e
         let body := rest.take a
         (if body.isEmpty then [] else [{ ty := .text, line := line2, source := body }]) ++
         scanLoop mfuel re d n (rest.drop a) (e + a) (line2 + countNL body))

def scanWith (re : Re) (d : Delims) (src : Bytes) (line : Nat) : List Token :=
  scanLoop (src.length + 1) re d (src.length + 1) src 0 line

/-- model of `parser.Scan(data, loc, delims)` -/
def scan (delims : List Bytes) (src : Bytes) (line : Nat) : List Token :=
  let d := Delims.ofList delims
  scanWith (tokenRe d) d src line

/-! ## Printing (line protocol) -/
def TokTy.code : TokTy → String
  | .text => "X" | .tag => "T" | .obj => "O" | .trimL => "L" | .trimR => "R"

def Token.show (t : Token) : String :=
  s!"{t.ty.code},{t.line},{hexField t.name},{hexField t.args},{hexField t.source}"
