/-!
# Range tables for Go's simple case mapping (`unicode.ToUpper` / `unicode.ToLower`)

The vocabulary of `Liquid/Generated/CaseTables.lean` (translator T6, `translate/casetables`, DESIGN 5.4): the
mapping is a sorted list of ranges; a range moves every rune it *hits* by the same distance, a rune no range
hits stays. The distance is given by the image `img` of the first rune (`delta = img − lo`, so that everything
is computed in natural numbers: `Nat.ble`, `Nat.beq`, `+`, `-`, `%` on literals are single steps for the Lean
kernel, which has to evaluate the checkers of `Proofs/CaseTables.lean` over the whole table). `alt` marks the
alternating blocks (Ā ā Ă ă …: every second rune of the interval is moved).
Runes are natural numbers here (`Rune` of `Liquid/Utf8.lean` is `Nat`).
-/

structure CaseRange where
  /-- first rune of the range -/
  lo : Nat
  /-- last rune of the range -/
  hi : Nat
  /-- only every second rune, counted from `lo`, is moved -/
  alt : Bool
  /-- the image of `lo` -/
  img : Nat
  deriving Repr, DecidableEq

/-- the rune is moved by this range -/
def CaseRange.hits (e : CaseRange) (r : Nat) : Bool :=
  Nat.ble e.lo r && Nat.ble r e.hi && (!e.alt || Nat.beq ((r - e.lo) % 2) 0)

/-- where the range sends a rune it hits -/
def CaseRange.image (e : CaseRange) (r : Nat) : Nat := e.img + (r - e.lo)

/-- the mapping a table denotes: the first range that hits the rune moves it; otherwise the rune stays -/
def caseLookup : List CaseRange → Nat → Nat
  | [], r => r
  | e :: es, r => if e.hits r then e.image r else caseLookup es r
