/-!
# Facts about stores to shared variables in the Go source (DESIGN 5.3, translator T3)

`translate/writes.go` lists every store (`ssa.Store`, `ssa.MapUpdate`, mutating builtin) of the
library packages whose address is rooted in a *captured* variable (`ssa.FreeVar`) or in a
*package-level* variable (`ssa.Global`) and writes the table `sharedWrites : List WriteFact`
into `Liquid/Generated/Writes.lean` on every `./check` run. The proof obligation over that
table is `no_shared_writes` in `Proofs/C04.lean`.
-/

/-- What kind of shared variable a store writes, and whether the write can happen after the
call that owns the variable has returned. -/
inductive WriteClass where
  /-- captured variable; the writing closure cannot outlive the call that created it (deferred,
      called directly, or handed to a synchronous consumer such as `sort.Slice`) -/
  | capturedLocal
  /-- captured variable; the writing closure flows to a return, a store, a struct/map/slice
      element, a `go` statement or a non-synchronous call argument: a variable of the *compile*
      step written at *render* time, by whichever goroutine renders -/
  | capturedEscaping
  /-- captured variable written only inside `sync.Once.Do` -/
  | synchronised
  /-- package-level variable -/
  | global
  deriving DecidableEq, Repr

structure WriteFact where
  /-- package path relative to the module -/
  pkg : String
  /-- function (closures are `outer$n`) -/
  fn : String
  /-- the captured or package-level variable at the root of the written address -/
  var : String
  cls : WriteClass
  /-- the store is in a package initialiser or `init` function -/
  inInit : Bool
  deriving Repr

/-- The facts that contradict "no render-time closure writes a variable it captured at compile
time and no package-level variable is written outside init". -/
def WriteFact.offending (w : WriteFact) : Bool :=
  w.cls = .capturedEscaping ∨ (w.cls = .global ∧ !w.inInit)
