/-!
# Facts about stores to shared variables in the Go source (DESIGN 5.3, translator T3)

`translate/writes.go` lists every store (`ssa.Store`, `ssa.MapUpdate`, mutating builtin) of the
library packages whose address is rooted in a *captured* variable (`ssa.FreeVar`) or in a
*package-level* variable (`ssa.Global`) and writes the table `sharedWrites : List WriteFact`
into `Liquid/Generated/Writes.lean` on every `./check` run. The proof obligation over that
table is `no_shared_writes` in `Proofs/C04.lean`.
-/

/-- What kind of shared variable a store writes, and whether the write can happen after the
call that owns the variable has returned. -/
inductive WriteClass where
  /-- captured variable; the writing closure cannot outlive the call that created it (deferred,
      called directly, or handed to a synchronous consumer such as `sort.Slice`) -/
  | capturedLocal
  /-- captured variable; the writing closure flows to a return, a store, a struct/map/slice
      element, a `go` statement or a non-synchronous call argument: a variable of the *compile*
      step written at *render* time, by whichever goroutine renders -/
  | capturedEscaping
  /-- captured variable written only inside `sync.Once.Do` -/
  | synchronised
  /-- package-level variable -/
  | global
  /-- a package-level variable (its address, or the pointer / map / slice / interface it holds) handed as
      receiver or argument to a call that is not in the translator's read-only list (`regexp`, `reflect`,
      `fmt`, `strings`, …): the callee may write through it (`sync.Map.Store`, `sync.Pool.Put`, a setter) -/
  | globalCall
  deriving DecidableEq, Repr

structure WriteFact where
  /-- package path relative to the module -/
  pkg : String
  /-- function (closures are `outer$n`) -/
  fn : String
  /-- the captured or package-level variable at the root of the written address -/
  var : String
  cls : WriteClass
  /-- the store is in a package initialiser or `init` function -/
  inInit : Bool
  deriving Repr

/-- The facts that contradict "no render-time closure writes a variable it captured at compile
time and no package-level variable is written outside init". -/
def WriteFact.offending (w : WriteFact) : Bool :=
  w.cls = .capturedEscaping ∨ (w.cls = .global ∧ !w.inInit)

/-- The package-level variables that the library hands to calls outside the read-only list, each
audited by reading the callee: none of them is written through.
* `expressions.closureType`, `expressions.interfaceType`: `reflect.Type` values, used as the argument of
  `Type.ConvertibleTo` (an interface method call; reflect types are immutable);
* `render.invalidLoc`: a zero `parser.SourceLoc`-carrying token passed by value as the `Locatable` of
  `wrapRenderError` / `renderErrorf`, which only call its `SourceLocation()` / `SourceText()`;
* `tags.errLoopBreak`, `tags.errLoopContinueLoop`: sentinel `error` values passed to `ctx.WrapError`, which
  wraps (reads) them. -/
def auditedGlobalCalls : List (String × String) := [
  ("expressions", "closureType"), ("expressions", "interfaceType"),
  ("render", "invalidLoc"),
  ("tags", "errLoopBreak"), ("tags", "errLoopContinueLoop")
]

/-- a `globalCall` fact outside `init` must name an audited variable -/
def WriteFact.unauditedGlobalCall (w : WriteFact) : Bool :=
  w.cls = .globalCall && !w.inInit && !(auditedGlobalCalls.any fun a => a.1 == w.pkg && a.2 == w.var)
