import Liquid.Render
import Liquid.Sprint
import Liquid.Call
import Liquid.Filters.Num
/-!
# The standard configuration: concrete `Prims` / `OutPrims` assembled from the value layer
-/

mutual
/-- the `w.Write` calls of `writeObject(w, v)` after its `ToLiquid` step: arrays and slices
    write their elements one by one (recursively), everything else is a single write -/
def writeChunksL : GoVal → Res Cause (List Bytes)
  | .nil => .ok []
  | .slice _ xs => writeChunksList xs
  | .array _ xs => writeChunksList xs
  | .mapSlice kvs => sprintItems kvs            -- a slice of MapItem structs, one write each
  | v => (writeObjectL v).bind fun b => .ok [b]
def writeChunksList : List GoVal → Res Cause (List Bytes)
  | [] => .ok []
  | .drop v :: xs => (writeChunksL v).bind fun a => (writeChunksList xs).bind fun b => .ok (a ++ b)
  | .ptr (.drop v) :: xs => (writeChunksL v).bind fun a => (writeChunksList xs).bind fun b => .ok (a ++ b)
  | x :: xs => (writeChunksL x).bind fun a => (writeChunksList xs).bind fun b => .ok (a ++ b)
end

def stdChunks (v : GoVal) : Res Cause (List Bytes) := writeChunksL v.toLiquid

def stdOut : OutPrims := { chunks := stdChunks }
