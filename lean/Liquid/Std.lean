import Liquid.Render
import Liquid.Sprint
import Liquid.Call
import Liquid.Filters.Num
import Liquid.Filters.StrGlue
import Liquid.Filters.Arr
import Liquid.Filters.Json
import Liquid.Filters.Date
import Liquid.Compare
/-!
# The standard configuration: concrete `Prims` / `OutPrims` assembled from the value layer
-/

mutual
/-- the `w.Write` calls of `writeObject(w, v)` after its `ToLiquid` step: arrays and slices
    write their elements one by one (recursively), everything else is a single write -/
def writeChunksL : GoVal → Res Cause (List Bytes)
  | .nil => .ok []
  | .slice _ xs => writeChunksList xs
  | .array _ xs => writeChunksList xs
  | .mapSlice kvs => sprintItems (resolveDropsVals kvs)            -- a slice of MapItem structs, one write each
  | .drop v => writeChunksL v                   -- not reached from `stdChunks`: `ToLiquid` leaves no drop
  | .ptr (.drop v) => writeChunksL v
  | v => (writeObjectL v).bind fun b => .ok [b]
def writeChunksList : List GoVal → Res Cause (List Bytes)
  | [] => .ok []
  | .drop v :: xs => (writeChunksL v).bind fun a => (writeChunksList xs).bind fun b => .ok (a ++ b)
  | .ptr (.drop v) :: xs => (writeChunksL v).bind fun a => (writeChunksList xs).bind fun b => .ok (a ++ b)
  | x :: xs => (writeChunksL x).bind fun a => (writeChunksList xs).bind fun b => .ok (a ++ b)
end

def stdChunks (v : GoVal) : Res Cause (List Bytes) := writeChunksL v.toLiquid

def stdOut : OutPrims := { chunks := stdChunks }

/-- every modelled filter body; each `Filters/*.lean` file contributes its `impls` list here -/
def stdFilterImpls : List (Bytes × FilterImpl) := Num.impls ++ StrGlue.impls ++ ArrF.impls ++ JsonF.impls ++ DateF.impls

def stdPrims : Prims :=
  { equal := fun a b => Cmp.opEq (Cmp.prep a) (Cmp.prep b),
    less := fun a b => Cmp.opLt (Cmp.prep a) (Cmp.prep b),
    contains := fun a b => Cmp.opContains (Cmp.prep a) (Cmp.prep b),
    equalFn := fun a b => Cmp.equal (Cmp.prep a) (Cmp.prep b),
    applyFilter := fun name recv args => applyFilter (lookupImpl stdFilterImpls) name recv args,
    hasFilter := fun name => (lookupSig name).isSome }

/-- the standard engine with another budget for the array conversion of a range (`convert`): `stdPrims` is
    `stdPrimsB 1000000` (`stdPrims_eq_budget`). The budget is not part of the semantics: see `Proofs/Budget.lean`. -/
def stdPrimsB (budget : Int) : Prims :=
  { stdPrims with
    applyFilter := fun name recv args => applyFilter (lookupImpl stdFilterImpls) name recv args budget }

theorem stdPrims_eq_budget : stdPrims = stdPrimsB 1000000 := rfl

def fsOfList (files : List (Bytes × Bytes)) : FS :=
  { read := fun p =>
      -- the operating system rejects a name with a NUL byte (EINVAL) or a component over NAME_MAX (ENAMETOOLONG)
      if p.contains 0 || (p.splitOn 47).any (fun c => c.length > 255) then .otherError else
      match files.find? (fun f => f.1 == p) with
      | some f => .content f.2
      | none =>
        -- the layout's own directories (and ".") exist but cannot be read as files
        if p == [46] || files.any (fun f => isPrefixOfB (p ++ [47]) f.1) then .otherError else .notExist,
    cache := fun _ => none }

/-! ## Canonical result line of a whole render (must match `harness/stream_render.go`) -/

def causeText : Cause → String
  | .syntax => "syntax" | .typeErr => "typeErr" | .interp => "interp"
  | .undefinedFilter n => "undefinedFilter:" ++ hexField n
  | .filterErr n inner => "filterErr:" ++ hexField n ++ ":" ++ causeText inner
  | .parity => "parity" | .divZero => "divZero" | .io => "io" | .brk => "brk" | .cont => "cont"
  | .other t => if t == "undefinedVariable" || t == "forElse" || t == "notExist" || t == "includeDepth" || t.startsWith "located:" then "other:" ++ t else "other"
  | .none => "none"

def errKindText (e : SErr) : String :=
  match e.cause with
  | .none =>
    (match e.msg with
     | .undefinedTag => "undefinedTag" | .unterminated => "unterminated" | .notInside => "notInside"
     | .cycleOutside => "cycleOutside" | .loopMod => "loopMod" | .includeArg => "includeArg"
     | .tagSyntax => "syntax" | .byCause => "other")
  | .syntax => "syntax" | .typeErr => "typeErr" | .interp => "interp" | .brk => "brk" | .cont => "cont" | .io => "io"
  | .undefinedFilter _ => "undefinedFilter"
  | .filterErr _ _ => "filterErr"
  | .other t => if t == "undefinedVariable" then "strictUndefined" else if t == "forElse" then "forElse"
                else if t == "notExist" then "includeIO" else if t == "includeDepth" then "includeDepth" else "other"
  | _ => "other"

def RunResult.show (path : Bytes) : RunResult → String
  | .ok out => "ok " ++ hexField out
  | .err e => s!"err {errKindText e} {e.line} {hexField (if e.pathSet then path else [])} {causeText e.cause}"
  | .panic _ => "panic"
  | .unmodelled w => "unmodelled " ++ w

/-- `Engine.ParseTemplateLocation` + `Template.Render` of the standard engine: the template itself is
    rendered at include depth 0, so `RenderFile` has `maxIncludeDepth` (= 100) levels left -/
def runStd (cfg : Cfg) (fs : FS) (src : Bytes) (line : Nat) (env : Env) : RunResult :=
  run stdPrims stdOut cfg fs maxIncludeDepth src line env
