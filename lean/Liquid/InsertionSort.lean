import Liquid.Basic
/-!
# Go's `sort.Sort` on short inputs: `insertionSort` (`sort/zsortinterface.go`, go1.23)

```go
func Sort(data Interface) {
	n := data.Len()
	if n <= 1 { return }
	limit := bits.Len(uint(n))
	pdqsort(data, 0, n, limit)
}
func pdqsort(data Interface, a, b, limit int) {
	const maxInsertion = 12
	…
	for {
		length := b - a
		if length <= maxInsertion {
			insertionSort(data, a, b)
			return
		}
		…
func insertionSort(data Interface, a, b int) {
	for i := a + 1; i < b; i++ {
		for j := i; j > a && data.Less(j, j-1); j-- {
			data.Swap(j, j-1)
		}
	}
}
```

So on at most 12 elements `sort.Sort` *is* `insertionSort`, for every `Less` — a strict weak order
or not: the result is determined by the sequence of answers of `Less(j, j-1)`, and the sort is stable.

The state of the outer loop is kept as `data[a:i]` *reversed* (`rev`: the left neighbour of the
travelling element first) followed by the untouched `data[i:b]`. Two versions: for a comparator
that always answers (`insertionSort`, the one the theorems speak about) and for one that may panic
or be outside the model (`insertionSortM`, the one the filters run; `Proofs/InsertionSort.lean`:
they agree wherever the comparator answers).
-/

/-- `const maxInsertion = 12` of `pdqsort` -/
def maxInsertion : Nat := 12

section InsertionSort
variable {α ε : Type}

/-- The inner loop `for j := i; j > a && data.Less(j, j-1); j-- { data.Swap(j, j-1) }`:
`x = data[j]` passes its left neighbour `y = data[j-1]` while `less x y`. The result is
`data[a:i+1]` reversed. -/
def insertRev (less : α → α → Bool) (x : α) : List α → List α
  | [] => [x]
  | y :: rev => if less x y then y :: insertRev less x rev else x :: y :: rev

/-- the outer loop `for i := a + 1; i < b; i++` (a first round with `i = a` inserts into nothing) -/
def insertionLoop (less : α → α → Bool) : List α → List α → List α
  | rev, [] => rev.reverse
  | rev, x :: rest => insertionLoop less (insertRev less x rev) rest

/-- `insertionSort(data, 0, len(data))` for a comparator that always answers -/
def insertionSort (less : α → α → Bool) (xs : List α) : List α := insertionLoop less [] xs

/-- The inner loop for a comparator that may panic or be outside the model: the comparisons are made
in Go's order (`Less(j, j-1)` for `j = i, i-1, …`) and the first one that does not answer ends the
sort with its outcome — no comparison is made that Go does not make. -/
def insertRevM (less : α → α → Res ε Bool) (x : α) : List α → Res ε (List α)
  | [] => .ok [x]
  | y :: rev =>
    (less x y).bind fun b =>
      if b then (insertRevM less x rev).bind fun r => .ok (y :: r) else .ok (x :: y :: rev)

def insertionLoopM (less : α → α → Res ε Bool) : List α → List α → Res ε (List α)
  | rev, [] => .ok rev.reverse
  | rev, x :: rest => (insertRevM less x rev).bind fun rev' => insertionLoopM less rev' rest

/-- `insertionSort(data, 0, len(data))` — all of `sort.Sort(data)` when `len(data) ≤ 12` -/
def insertionSortM (less : α → α → Res ε Bool) (xs : List α) : Res ε (List α) :=
  insertionLoopM less [] xs

end InsertionSort
