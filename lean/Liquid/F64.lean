import Liquid.Basic
/-!
# IEEE-754 binary floating point as exact rationals

Every finite `float64`/`float32` is a rational; the model keeps floats as `Rat` and rounds
explicitly where Go rounds: `roundFloat` is round-to-nearest, ties-to-even, with gradual
underflow, and reports overflow (`none`, where Go produces ±Inf).
-/

def pow2 (e : Int) : Rat :=
  if e ≥ 0 then ((2 ^ e.toNat : Nat) : Rat) else 1 / ((2 ^ (-e).toNat : Nat) : Rat)

/-- round a non-negative rational to the nearest integer, ties to even -/
def roundHalfEven (q : Rat) : Int :=
  let f := q.floor
  let r := q - (f : Rat)
  if r < 1/2 then f
  else if r > 1/2 then f + 1
  else if f % 2 == 0 then f else f + 1

/-- `roundFloat p emin emax q`: nearest value of the binary format with `p` significand bits,
    minimum exponent `emin` (of the unit in the last place of subnormals) and overflow
    threshold `2^emax`. `float64 = roundFloat 53 (-1074) 1024`. -/
def roundFloat (p : Nat) (emin emax : Int) (q : Rat) : Option Rat :=
  if q == 0 then some 0 else
  let a := if q < 0 then -q else q
  -- estimate e with 2^(p-1) ≤ a / 2^e < 2^p
  let e0 : Int := (Nat.log2 a.num.natAbs : Int) - (Nat.log2 a.den : Int) - (p - 1 : Int)
  -- a.num / a.den lies in [2^(ln - ld - 1), 2^(ln - ld + 1)), so e0 is off by at most one
  let e1 : Int := if a / pow2 e0 < ((2 ^ (p - 1) : Nat) : Rat) then e0 - 1 else
                  if a / pow2 e0 ≥ ((2 ^ p : Nat) : Rat) then e0 + 1 else e0
  let e : Int := if e1 < emin then emin else e1
  let m := roundHalfEven (a / pow2 e)
  let r := (m : Rat) * pow2 e
  if r ≥ pow2 emax then none
  else some (if q < 0 then -r else r)

def roundF64 (q : Rat) : Option Rat := roundFloat 53 (-1074) 1024 q
def roundF32 (q : Rat) : Option Rat := roundFloat 24 (-149) 128 q

def isF64 (q : Rat) : Bool := roundF64 q == some q

/-- parse the decimal digits of a literal `ddd[.ddd]` (no sign) as an exact rational -/
def decimalOfDigits (intPart fracPart : List UInt8) : Rat :=
  let toNat (ds : List UInt8) : Nat := ds.foldl (fun acc d => acc * 10 + (d.toNat - 48)) 0
  ((toNat (intPart ++ fracPart) : Nat) : Rat) / ((10 ^ fracPart.length : Nat) : Rat)
