import Liquid.Scan
import Liquid.Value
/-!
# Line-protocol driver (DESIGN §5.1): one case per line in, one canonical result line out.
-/

def parseDelims (f : String) : List Bytes :=
  if f == "-" then [] else (f.splitOn ",").map hexDecode

def showTokens (ts : List Token) : String :=
  if ts.isEmpty then "-" else " ".intercalate (ts.map Token.show)

def runCase (line : String) : String :=
  match line.splitOn " " with
  | ["scan", d, ln, src] =>
    showTokens (scan (parseDelims d) (hexDecode src) ln.toNat!)
  | ["val", v] =>
    match GoVal.parse v with
    | some x => x.enc
    | none => "unmodelled parse"
  -- whole-engine streams (harness/stream_robust.go, stream_determ.go, stream_immut.go); the render
  -- model is not connected yet, so the comparison skips these lines (counted as unmodelled):
  --   robust <cfg> <srchex> <envenc>                       (C01)
  --   determ <cfg> <srchex> <envenc>                       (C02)
  --   immut  <cfg> <nT> <srchex>.. <nE> <envenc>.. <op>..  (C03)
  | "robust" :: _ => "unmodelled robust"
  | "determ" :: _ => "unmodelled determ"
  | "immut" :: _ => "unmodelled immut"
  | _ => "bad-op"
