import Liquid.Scan
import Liquid.Value
import Liquid.Call
import Liquid.Filters.Num
/-!
# Line-protocol driver (DESIGN §5.1): one case per line in, one canonical result line out.
-/

def parseDelims (f : String) : List Bytes :=
  if f == "-" then [] else (f.splitOn ",").map hexDecode

def showTokens (ts : List Token) : String :=
  if ts.isEmpty then "-" else " ".intercalate (ts.map Token.show)

/-- every modelled filter body; each `Filters/*.lean` file contributes its `impls` list here -/
def allFilterImpls : List (Bytes × FilterImpl) := Num.impls

def showValRes : Res Cause GoVal → String
  | .ok v => "ok " ++ v.enc
  | .err c => "err " ++ c.kind
  | .panic _ => "panic"
  | .unmodelled w => "unmodelled " ++ w

def showBytesRes : Res Cause Bytes → String
  | .ok b => "ok " ++ hexField b
  | .err c => "err " ++ c.kind
  | .panic _ => "panic"
  | .unmodelled w => "unmodelled " ++ w

def parseParamTy : String → Option ParamTy
  | "any" => some .any | "bool" => some .bool | "int" => some .int | "f64" => some .f64
  | "str" => some .str | "anys" => some .anys | "time" => some .time
  | _ => none

/-- `filter <namehex> <recv> <arg>*` -/
def runFilterCase (name : String) (vals : List String) : String :=
  match vals.mapM GoVal.parse with
  | some (recv :: args) => showValRes (evalFilter (lookupImpl allFilterImpls) (hexDecode name) recv args)
  | _ => "unmodelled parse"

/-- `numf <x> (<namehex> <arg|->)+`: the pipeline `x | f1: a1 | f2 …`, its value and its rendering -/
def runPipeline (impls : Bytes → Option FilterImpl) : GoVal → List String → Res Cause GoVal
  | v, name :: arg :: rest =>
    let args : Option (List GoVal) := if arg == "-" then some [] else (GoVal.parse arg).map fun a => [a]
    match args with
    | none => .unmodelled "parse"
    | some as => (evalFilter impls (hexDecode name) v as).bind fun r => runPipeline impls r rest
  | v, _ => .ok v

def runNumfCase (x : String) (steps : List String) : String :=
  match GoVal.parse x with
  | none => "unmodelled parse"
  | some v =>
    match runPipeline (lookupImpl allFilterImpls) (viaValue v) steps with
    | .ok r =>
      match writeObject r with
      | .ok t => "ok " ++ r.enc ++ " " ++ hexField t
      | .err c => "err " ++ c.kind
      | .panic _ => "panic"
      | .unmodelled w => "unmodelled " ++ w
    | .err c => "err " ++ c.kind
    | .panic _ => "panic"
    | .unmodelled w => "unmodelled " ++ w

def runCase (line : String) : String :=
  match line.splitOn " " with
  | ["scan", d, ln, src] =>
    showTokens (scan (parseDelims d) (hexDecode src) ln.toNat!)
  | ["val", v] =>
    match GoVal.parse v with
    | some x => x.enc
    | none => "unmodelled parse"
  | "filter" :: name :: vals => runFilterCase name vals
  | "numf" :: x :: steps => runNumfCase x steps
  | ["sprint", v] =>
    match GoVal.parse v with
    | some x => showBytesRes (sprint x)
    | none => "unmodelled parse"
  | ["wobj", v] =>
    match GoVal.parse v with
    | some x => showBytesRes (writeObject (viaValue x))
    | none => "unmodelled parse"
  | ["conv", t, v] =>
    match parseParamTy t, GoVal.parse v with
    | some ty, some x => showValRes (convert x ty)
    | _, _ => "unmodelled parse"
  | _ => "bad-op"
