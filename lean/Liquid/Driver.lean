import Liquid.Scan
import Liquid.Value
import Liquid.Compare
/-!
# Line-protocol driver (DESIGN §5.1): one case per line in, one canonical result line out.
-/

def parseDelims (f : String) : List Bytes :=
  if f == "-" then [] else (f.splitOn ",").map hexDecode

def showTokens (ts : List Token) : String :=
  if ts.isEmpty then "-" else " ".intercalate (ts.map Token.show)

def runCase (line : String) : String :=
  match line.splitOn " " with
  | ["scan", d, ln, src] =>
    showTokens (scan (parseDelims d) (hexDecode src) ln.toNat!)
  | ["val", v] =>
    match GoVal.parse v with
    | some x => x.enc
    | none => "unmodelled parse"
  | ["rel", forms, a, b] => Cmp.runPair Cmp.relOps forms a b
  | ["con", forms, a, b] => Cmp.runPair [.contains] forms a b
  | ["tru", form, a] => Cmp.runTruthy form a
  | "expr" :: e :: vals => Cmp.runExpr e vals
  | _ => "bad-op"
