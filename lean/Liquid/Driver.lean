import Liquid.Scan
import Liquid.Value
import Liquid.Call
import Liquid.Filters.Num
/-!
# Line-protocol driver (DESIGN §5.1): one case per line in, one canonical result line out.
-/

def parseDelims (f : String) : List Bytes :=
  if f == "-" then [] else (f.splitOn ",").map hexDecode

def showTokens (ts : List Token) : String :=
  if ts.isEmpty then "-" else " ".intercalate (ts.map Token.show)

/-- every modelled filter body; each `Filters/*.lean` file contributes its `impls` list here -/
def allFilterImpls : List (Bytes × FilterImpl) := Num.impls

def showValRes : Res Cause GoVal → String
  | .ok v => "ok " ++ v.enc
  | .err c => "err " ++ c.kind
  | .panic _ => "panic"
  | .unmodelled w => "unmodelled " ++ w

def showBytesRes : Res Cause Bytes → String
  | .ok b => "ok " ++ hexField b
  | .err c => "err " ++ c.kind
  | .panic _ => "panic"
  | .unmodelled w => "unmodelled " ++ w

def parseParamTy : String → Option ParamTy
  | "any" => some .any | "bool" => some .bool | "int" => some .int | "f64" => some .f64
  | "str" => some .str | "anys" => some .anys | "time" => some .time
  | _ => none

/-- `filter <namehex> <recv> <arg>*` -/
def runFilterCase (name : String) (vals : List String) : String :=
  match vals.mapM GoVal.parse with
  | some (recv :: args) => showValRes (evalFilter (lookupImpl allFilterImpls) (hexDecode name) recv args)
  | _ => "unmodelled parse"

def runCase (line : String) : String :=
  match line.splitOn " " with
  | ["scan", d, ln, src] =>
    showTokens (scan (parseDelims d) (hexDecode src) ln.toNat!)
  | ["val", v] =>
    match GoVal.parse v with
    | some x => x.enc
    | none => "unmodelled parse"
  | "filter" :: name :: vals => runFilterCase name vals
  | ["sprint", v] =>
    match GoVal.parse v with
    | some x => showBytesRes (sprint x)
    | none => "unmodelled parse"
  | ["wobj", v] =>
    match GoVal.parse v with
    | some x => showBytesRes (writeObject (viaValue x))
    | none => "unmodelled parse"
  | ["conv", t, v] =>
    match parseParamTy t, GoVal.parse v with
    | some ty, some x => showValRes (convert x ty)
    | _, _ => "unmodelled parse"
  | _ => "bad-op"
