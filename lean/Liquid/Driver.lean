import Liquid.Scan
import Liquid.Value
/-!
# Line-protocol driver (DESIGN §5.1): one case per line in, one canonical result line out.
-/

def parseDelims (f : String) : List Bytes :=
  if f == "-" then [] else (f.splitOn ",").map hexDecode

def showTokens (ts : List Token) : String :=
  if ts.isEmpty then "-" else " ".intercalate (ts.map Token.show)

def runCase (line : String) : String :=
  match line.splitOn " " with
  | ["scan", d, ln, src] =>
    showTokens (scan (parseDelims d) (hexDecode src) ln.toNat!)
  | ["val", v] =>
    match GoVal.parse v with
    | some x => x.enc
    | none => "unmodelled parse"
  | "conc" :: _ =>
    -- C04 race-detector rounds: the model side of a round is the theorem (every schedule of
    -- confined threads gives each thread its sequential result and no race), so the expected
    -- verdict of every round is `ok`
    "ok"
  | _ => "bad-op"
