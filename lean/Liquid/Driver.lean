import Liquid.Scan
import Liquid.Value
import Liquid.Parse
import Liquid.TrimWriter
/-!
# Line-protocol driver (DESIGN §5.1): one case per line in, one canonical result line out.
-/

def parseDelims (f : String) : List Bytes :=
  if f == "-" then [] else (f.splitOn ",").map hexDecode

def showTokens (ts : List Token) : String :=
  if ts.isEmpty then "-" else " ".intercalate (ts.map Token.show)

/-! ### `parse` op (property C06): scan, then the block parser on the standard table -/

/-- THE PLACE WHERE THE EXPRESSION CHECKER OF THE `parse` OP IS CHOSEN.
    STUB: accepts every object. To be replaced by the model of `expressions.Parse` (on `tok.args`)
    once `Liquid/ExprParse.lean` exists; until then the `parse` stream only emits objects whose
    expressions are valid (and skips harvested templates on which the real parser reports an
    expression error). -/
def parseChk : Bytes → Option Cause := fun _ => none

def PErrKind.code : PErrKind → String
  | .objSyntax _ => "objSyntax"
  | .notInside => "notInside"
  | .unterminated => "unterminated"
  | .tagSyntax _ => "tagSyntax"
  | .undefinedTag => "undefinedTag"

def showParse : Res PErr (List AST) → String
  | .ok ast => let sh := AST.shapeList ast; "ok " ++ (if sh.isEmpty then "-" else sh)
  | .err e => s!"err {e.kind.code} {e.line}"
  | .panic _ => "panic"
  | .unmodelled w => "unmodelled " ++ w

def runCase (line : String) : String :=
  match line.splitOn " " with
  | ["scan", d, ln, src] =>
    showTokens (scan (parseDelims d) (hexDecode src) ln.toNat!)
  | ["tw", ops] =>
    let os := if ops == "-" then [] else (ops.splitOn ",").filterMap WOp.parse
    showCalls (writeCalls os)
  | ["parse", d, src] =>
    showParse (parseTokens stdGrammar parseChk (scan (parseDelims d) (hexDecode src) 1))
  | ["val", v] =>
    match GoVal.parse v with
    | some x => x.enc
    | none => "unmodelled parse"
  | _ => "bad-op"
