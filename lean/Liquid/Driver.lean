import Liquid.Scan
import Liquid.Value
import Liquid.Parse
import Liquid.TrimWriter
import Liquid.ExprParse
/-!
# Line-protocol driver (DESIGN §5.1): one case per line in, one canonical result line out.
-/

def parseDelims (f : String) : List Bytes :=
  if f == "-" then [] else (f.splitOn ",").map hexDecode

def showTokens (ts : List Token) : String :=
  if ts.isEmpty then "-" else " ".intercalate (ts.map Token.show)

def flagS (b : Bool) (c : String) : String := if b then c else "-"

def showStmt (kind : String) (r : Res ParseErr Stmt) : String :=
  match r with
  | .err _ => "err"
  | .panic _ => "panic"
  | .unmodelled w => "unmodelled " ++ w
  | .ok st =>
    match kind, st with
    | "e", .expr _ => "ok"
    | "assign", .assign x _ => "ok " ++ hexField x
    | "cycle", .cycle g vs => "ok " ++ hexField g ++ " " ++ ",".intercalate (vs.map fun v => "s" ++ hexEncode v)
    | "loop", .loop x _ m => "ok " ++ hexField x ++ " " ++ flagS m.reversed "r" ++ flagS m.limit.isSome "l" ++
        flagS m.offset.isSome "o" ++ flagS m.cols.isSome "c"
    | "when", .when es => s!"ok {es.length}"
    | "e", _ => "err"
    | _, _ => "err-nostmt"

def selectorOf (kind : String) : Bytes :=
  match kind with
  | "assign" => kwAssign | "cycle" => kwCycle | "loop" => kwLoop | "when" => kwWhen | _ => []

def runCase (line : String) : String :=
  match line.splitOn " " with
  | ["scan", d, ln, src] =>
    showTokens (scan (parseDelims d) (hexDecode src) ln.toNat!)
  | ["tw", ops] =>
    let os := if ops == "-" then [] else (ops.splitOn ",").filterMap WOp.parse
    showCalls (writeCalls os)
  | ["eparse", kind, src] =>
    showStmt kind (parseSource (selectorOf kind ++ hexDecode src))
  | ["val", v] =>
    match GoVal.parse v with
    | some x => x.enc
    | none => "unmodelled parse"
  | _ => "bad-op"
