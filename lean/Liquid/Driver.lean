import Liquid.Scan
import Liquid.Value
import Liquid.Parse
import Liquid.TrimWriter
import Liquid.ExprParse
import Liquid.ExprShow
import Liquid.Std
import Liquid.Call
import Liquid.Filters.Num
import Liquid.Filters.Str
import Liquid.Compare
import Liquid.Rex
import Liquid.Heap
/-!
# Line-protocol driver (DESIGN §5.1): one case per line in, one canonical result line out.
-/

def parseDelims (f : String) : List Bytes :=
  if f == "-" then [] else (f.splitOn ",").map hexDecode

def showTokens (ts : List Token) : String :=
  if ts.isEmpty then "-" else " ".intercalate (ts.map Token.show)

def flagS (b : Bool) (c : String) : String := if b then c else "-"

def showStmt (kind : String) (r : Res ParseErr Stmt) : String :=
  match r with
  | .err _ => "err"
  | .panic _ => "panic"
  | .unmodelled w => "unmodelled " ++ w
  | .ok st =>
    match kind, st with
    | "e", .expr _ => "ok"
    | "assign", .assign x _ => "ok " ++ hexField x
    | "cycle", .cycle g v0 vs => "ok " ++ hexField g ++ " " ++ ",".intercalate ((v0 :: vs).map fun v => "s" ++ hexEncode v)
    | "loop", .loop x _ m => "ok " ++ hexField x ++ " " ++ flagS m.reversed "r" ++ flagS m.limit.isSome "l" ++
        flagS m.offset.isSome "o" ++ flagS m.cols.isSome "c"
    | "when", .when es => s!"ok {es.length}"
    | "e", _ => "err"
    | _, _ => "err-nostmt"

/-- op `eshow`: parse the source as an expression and print the tree (`Expr.show`); the printed text is parsed
    again and must give the same tree (compared through the canonical lexemes) -/
def runEshow (src : Bytes) : String :=
  match parseExprSource src with
  | .ok e =>
    if !e.printable then "unprintable"
    else
      let s := e.show
      match parseExprSource s with
      | .ok e' => if e'.lexemes == e.lexemes then "ok " ++ hexField s else "noroundtrip " ++ hexField s
      | _ => "noroundtrip " ++ hexField s
  | .err _ => "err"
  | .panic _ => "panic"
  | .unmodelled w => "unmodelled " ++ w

def selectorOf (kind : String) : Bytes :=
  match kind with
  | "assign" => kwAssign | "cycle" => kwCycle | "loop" => kwLoop | "when" => kwWhen | _ => []
/-- every modelled filter body; each `Filters/*.lean` file contributes its `impls` list here -/
def allFilterImpls : List (Bytes × FilterImpl) := stdFilterImpls

/-- a value result, with the entries of every map in the codec's canonical order (the harness reads the
    entries of a result map out of a Go map and sorts them: `Reify`, `sortKVs`) -/
def showValRes : Res Cause GoVal → String
  | .ok v => "ok " ++ MapOrder.canonEnc v
  | .err c => "err " ++ c.kind
  | .panic _ => "panic"
  | .unmodelled w => "unmodelled " ++ w

def showBytesRes : Res Cause Bytes → String
  | .ok b => "ok " ++ hexField b
  | .err c => "err " ++ c.kind
  | .panic _ => "panic"
  | .unmodelled w => "unmodelled " ++ w

def parseParamTy : String → Option ParamTy
  | "any" => some .any | "bool" => some .bool | "int" => some .int | "f64" => some .f64
  | "str" => some .str | "anys" => some .anys | "time" => some .time
  | _ => none

/-- `filter <namehex> <recv> <arg>*` -/
def runFilterCase (name : String) (vals : List String) : String :=
  match vals.mapM GoVal.parse with
  | some (recv :: args) => showValRes (evalFilter (lookupImpl allFilterImpls) (hexDecode name) recv args)
  | _ => "unmodelled parse"

/-- `<strict 0|1>/<delims|->/<fs|->`, fs = comma-separated `<namehex>:<srchex>` -/
def parseEngineCfg (f : String) : Option (Bool × List Bytes × List (Bytes × Bytes)) :=
  match f.splitOn "/" with
  | [st, d, fsF] =>
    let files := if fsF == "-" then [] else (fsF.splitOn ",").filterMap fun p =>
      match p.splitOn ":" with
      | [n, c] => some (hexDecode n, hexDecode c)
      | _ => none
    some (st == "1", parseDelims d, files)
  | _ => none

def envOfVal : GoVal → Option Env
  | .map _ _ kvs => some (kvs.filterMap fun kv => match kv.1 with | .str k => some (k, kv.2) | _ => none)
  | _ => none

/-- `render <cfg> <pathhex> <line> <srchex> <envenc>` -/
def runRenderCase (cfgF pathF lineF srcF envF : String) : String :=
  match parseEngineCfg cfgF, GoVal.parse envF with
  | some (strict, delims, files), some ev =>
    (match envOfVal ev with
     | some env =>
       let path := hexDecode pathF
       let cfg : Cfg := { strict := strict, path := path, delims := delims }
       (runStd cfg (fsOfList files) (hexDecode srcF) lineF.toNat! env).show path
     | none => "unmodelled env")
  | _, _ => "unmodelled parse"

/-- the whole-engine streams parse with `ParseTemplate` (no path, line 0), or, when the configuration
    carries an include layout, at `<dir>/main.liquid` line 1 (harness `engineCfg.parse`) -/
def runEngineCase (cfgF srcF envF : String) : String :=
  if cfgF.endsWith "/-" then runRenderCase cfgF "-" "0" srcF envF
  else runRenderCase cfgF (hexEncode "main.liquid".toUTF8.toList) "1" srcF envF

/-- `immut <cfg> <nT> <srchex>.. <nE> <envenc>.. <t:e:api>..`: a history of renders on one engine. By
    `C03.history_independent` the model's answer to each operation is the render of its (template,
    environment) pair alone; results are joined by `|` with `:` for the blanks of a render result. -/
def runImmutCase (cfgF nTF : String) (rest : List String) : String :=
  let nT := nTF.toNat!
  let srcs := rest.take nT
  match rest.drop nT with
  | nEF :: rest2 =>
    let nE := nEF.toNat!
    let envs := rest2.take nE
    let ops := rest2.drop nE
    let one (op : String) : String :=
      match op.splitOn ":" with
      | [t, e, _] =>
        (match srcs[t.toNat!]?, envs[e.toNat!]? with
         | some src, some env => (runEngineCase cfgF src env).replace " " ":"
         | _, _ => "unmodelled op")
      | _ => "unmodelled op"
    let rs := ops.map one
    match rs.find? (fun r => r.startsWith "unmodelled") with
    | some r => r
    | none => "|".intercalate rs
  | [] => "unmodelled parse"

/-- `incl <cfg> <pathhex> <line> <srchex> <envenc> <loc|cache>` (property C14): a render on an engine
    whose layout has files on disk and/or sources registered with `ParseTemplateAndCache(src, name, 1)`
    (the fs field of `cfg` is comma-separated `<namehex>:<diskhex|~>:<cachehex|~>`, `~` absent). A source is cached only
    when it parses; mode `cache` parses the main template with `ParseTemplateAndCache` too. -/
def runInclCase (cfgF pathF lineF srcF envF mode : String) : String :=
  match cfgF.splitOn "/", GoVal.parse envF with
  | [_, _, fsx], some ev =>
    (match envOfVal ev with
     | none => "unmodelled env"
     | some env =>
       let opt (f : String) : Option Bytes := if f == "~" then none else some (hexDecode f)
       let entries := if fsx == "-" then [] else (fsx.splitOn ",").filterMap fun p =>
         match p.splitOn ":" with
         | [n, d, c] => some (hexDecode n, opt d, opt c)
         | _ => none
       let disk := entries.filterMap fun e => e.2.1.map fun d => (e.1, d)
       let path := hexDecode pathF
       let src := hexDecode srcF
       let line := lineF.toNat!
       let cfg : Cfg := { strict := false, path := path, delims := [] }
       -- registrations in the harness's order: the layout's cached sources (line 1), then the main template
       let regs := (entries.filterMap fun e => e.2.2.map fun c => (cleanPath e.1, c, 1)) ++
                   (if mode == "cache" then [(cleanPath path, src, line)] else [])
       let step (acc : Res Cause (List (Bytes × Bytes))) (r : Bytes × Bytes × Nat) : Res Cause (List (Bytes × Bytes)) :=
         acc.bind fun cache =>
           match compileSource cfg.delims r.2.1 r.2.2 with
           | .ok _ => .ok ((r.1, r.2.1) :: cache)        -- latest first
           | .err _ => .ok cache
           | .panic w => .panic w
           | .unmodelled w => .unmodelled w
       match regs.foldl step (.ok []) with
       | .ok cache =>
         let fs : FS := { read := (fsOfList disk).read, cache := fun p => (cache.find? (fun e => e.1 == p)).map (·.2) }
         (runStd cfg fs src line env).show path
       | .unmodelled w => "unmodelled " ++ w
       | _ => "panic")
  | _, _ => "unmodelled parse"

/-- for every `Write` call of the fault-free run, in order: the error the render ends with when that call fails
    (`none`: it does not end with an error) -/
def Prog.faultErrs {α} : Prog α → List (Option RawErr)
  | .call _ k => (match k (.failed 0) with | .fail e => some e | _ => none) :: faultErrs (k .ok)
  | _ => []

/-- how many fault indices the `faults` stream explores at each end of a long run (`faultCallCap / 2`) -/
def faultCapHalf : Nat := 600

/-- the location of the error of every explored single-fault run: `<line>p` (the error names the template's
    path) or `<line>-` (it names no path), `!` = not a located error; comma-separated, `-` = no call -/
def showFaultLocs (path : Bytes) (es : List (Option RawErr)) : String :=
  let one : Option RawErr → String
    | some (.located e) => toString e.line ++ (if e.pathSet && !path.isEmpty then "p" else "-")
    | _ => "!"
  let es' := if es.length > 2 * faultCapHalf then es.take faultCapHalf ++ es.drop (es.length - faultCapHalf) else es
  if es'.isEmpty then "-" else ",".intercalate (es'.map one)

/-- `writes <cfg> <pathhex> <line> <srchex> <envenc>`: the underlying `Write` calls of a fault-free
    `FRender` (in order, empty calls included), how the render ends, and where the error of each single-fault
    run is located -/
def runWritesCase (cfgF pathF lineF srcF envF : String) : String :=
  match parseEngineCfg cfgF, GoVal.parse envF with
  | some (strict, delims, files), some ev =>
    (match envOfVal ev with
     | some env =>
       let path := hexDecode pathF
       let cfg : Cfg := { strict := strict, path := path, delims := delims }
       (match compileSource cfg.delims (hexDecode srcF) lineF.toNat! with
        | .err e => (RunResult.err e).show path
        | .panic _ => "panic"
        | .unmodelled w => "unmodelled " ++ w
        | .ok root =>
          let p := frender stdPrims stdOut cfg (fsOfList files) maxIncludeDepth root env
          let calls := showCalls p.calls ++ " " ++ showFaultLocs path p.faultErrs
          (match p.runPure with
           | (_, .ok _) => "ok " ++ calls
           | (_, .err (.located e)) => (RunResult.err e).show path ++ " " ++ calls
           | (_, .err (.plain c)) => (RunResult.err ⟨0, false, c, .byCause⟩).show path ++ " " ++ calls
           | (_, .panic _) => "panic"
           | (_, .unmodelled w) => "unmodelled " ++ w))
     | none => "unmodelled env")
  | _, _ => "unmodelled parse"
/-- `numf <x> (<namehex> <arg|->)+`: the pipeline `x | f1: a1 | f2 …`, its value and its rendering -/
def runPipeline (impls : Bytes → Option FilterImpl) : GoVal → List String → Res Cause GoVal
  | v, name :: arg :: rest =>
    let args : Option (List GoVal) := if arg == "-" then some [] else (GoVal.parse arg).map fun a => [a]
    match args with
    | none => .unmodelled "parse"
    | some as => (evalFilter impls (hexDecode name) v as).bind fun r => runPipeline impls r rest
  | v, _ => .ok v

def runNumfCase (x : String) (steps : List String) : String :=
  match GoVal.parse x with
  | none => "unmodelled parse"
  | some v =>
    match runPipeline (lookupImpl allFilterImpls) (viaValue v) steps with
    | .ok r =>
      match writeObject r with
      | .ok t => "ok " ++ MapOrder.canonEnc r ++ " " ++ hexField t
      | .err c => "err " ++ c.kind
      | .panic _ => "panic"
      | .unmodelled w => "unmodelled " ++ w
    | .err c => "err " ++ c.kind
    | .panic _ => "panic"
    | .unmodelled w => "unmodelled " ++ w

/-! ### `parse` op (property C06): scan, then the block parser on the standard table -/

/-- the expression checker of the `parse` op: the model of `expressions.Parse` on an object's
    arguments (`objChk`, Render.lean). A literal outside the lexer model makes the case `unmodelled`. -/
def parseChk : Bytes → Option Cause := objChk

def PErrKind.code : PErrKind → String
  | .objSyntax _ => "objSyntax"
  | .notInside => "notInside"
  | .unterminated => "unterminated"
  | .tagSyntax _ => "tagSyntax"
  | .undefinedTag => "undefinedTag"

def showParse : Res PErr (List AST) → String
  | .ok ast => let sh := AST.shapeList ast; "ok " ++ (if sh.isEmpty then "-" else sh)
  | .err e => s!"err {e.kind.code} {e.line}"
  | .panic _ => "panic"
  | .unmodelled w => "unmodelled " ++ w

def runCase (line : String) : String :=
  match line.splitOn " " with
  | ["scan", d, ln, src] =>
    showTokens (scan (parseDelims d) (hexDecode src) ln.toNat!)
  | ["rex", enc, inp] => Rex.run enc inp
  | ["rexs", d, inp] => Rex.runScan (parseDelims d) inp
  | ["tw", ops] =>
    let os := if ops == "-" then [] else (ops.splitOn ",").flatMap WOp.parseOps
    showCalls (writeCalls os)
  | ["eparse", kind, src] =>
    showStmt kind (parseSource (selectorOf kind ++ hexDecode src))
  | ["eshow", src, _] => runEshow (hexDecode src)
  | ["render", cfgF, pathF, lineF, srcF, envF] => runRenderCase cfgF pathF lineF srcF envF
  | ["writes", cfgF, pathF, lineF, srcF, envF] => runWritesCase cfgF pathF lineF srcF envF
  | ["incl", cfgF, pathF, lineF, srcF, envF, mode] => runInclCase cfgF pathF lineF srcF envF mode
  -- incld <want> <render line | incl line>: the deep and cyclic include layouts of the `incl` stream (the first field is
  -- the harness oracle's expectation, not an input of the render)
  | ["incld", _, "render", cfgF, pathF, lineF, srcF, envF] => runRenderCase cfgF pathF lineF srcF envF
  | ["incld", _, "incl", cfgF, pathF, lineF, srcF, envF, mode] => runInclCase cfgF pathF lineF srcF envF mode
  | ["parse", d, src] =>
    let toks := scan (parseDelims d) (hexDecode src) 1
    match firstUnmodelledObj toks with
    | some w => "unmodelled " ++ w
    | none => showParse (parseTokens stdGrammar parseChk toks)
  | ["val", v] =>
    match GoVal.parse v with
    | some x => x.enc
    | none => "unmodelled parse"
  | "filter" :: name :: vals => runFilterCase name vals
  | "sortc" :: name :: vals =>
    match vals.mapM GoVal.parse with
    | some (recv :: args) => ArrF.runSortc allFilterImpls (hexDecode name) recv args
    | _ => "unmodelled parse"
  | "numf" :: x :: steps => runNumfCase x steps
  -- alias <off>:<spare> <recv> (<namehex> <arg|->)+  (C15, C03): the chain on the slice-memory model of Liquid/Heap.lean:
  -- result, whether it lies in the receiver's backing array, which locations of the caller's arrays changed
  | "alias" :: spec :: recv :: steps => Heap.runAlias spec recv steps
  | ["sprint", v] =>
    match GoVal.parse v with
    | some x => showBytesRes (sprint x)
    | none => "unmodelled parse"
  | ["wobj", v] =>
    match GoVal.parse v with
    | some x => showBytesRes (writeObject (viaValue x))
    | none => "unmodelled parse"
  | ["conv", t, v] =>
    match parseParamTy t, GoVal.parse v with
    | some ty, some x => showValRes (convert x ty)
    | _, _ => "unmodelled parse"
  | "strf" :: name :: recv :: args => StrF.runStrf name recv args
  | "strfv" :: name :: recv :: args => StrF.runStrfv name recv args
  | ["strfsj", recv, sep] => StrF.runStrfsj recv sep
  | ["rel", forms, a, b] => Cmp.runPair Cmp.relOps forms a b
  | ["con", forms, a, b] => Cmp.runPair [.contains] forms a b
  | ["tru", form, a] => Cmp.runTruthy form a
  | "expr" :: e :: vals => Cmp.runExpr e vals
  -- whole-engine streams (harness/stream_robust.go, stream_determ.go, stream_immut.go): the case is a
  -- render of the source (no path, first line 0 = unset) under the configuration and environment.
  --   robust <cfg> <srchex> <envenc>                       (C01)
  --   determ <cfg> <srchex> <envenc>                       (C02)
  --   immut  <cfg> <nT> <srchex>.. <nE> <envenc>.. <op>..  (C03)
  | ["robust", cfgF, srcF, envF] => runEngineCase cfgF srcF envF
  | ["determ", cfgF, srcF, envF] => runEngineCase cfgF srcF envF
  | "immut" :: cfgF :: nT :: rest => runImmutCase cfgF nT rest
  | "conc" :: _ =>
    -- C04 race-detector rounds: the model side of a round is the theorem (every schedule of
    -- confined threads gives each thread its sequential result and no race), so the expected
    -- verdict of every round is `ok`
    "ok"
  | _ => "bad-op"
