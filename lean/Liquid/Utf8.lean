import Liquid.Basic
/-!
# Go's UTF-8 decoding and `unicode.IsSpace`, on `Bytes`

`decodeRune` reproduces `utf8.DecodeRune` (an invalid or short sequence yields
`(U+FFFD, 1)`), `decodeLastRune` reproduces `utf8.DecodeLastRune`, `encodeRune`
reproduces `utf8.AppendRune` for valid scalar values.
-/

abbrev Rune := Nat

def runeError : Rune := 0xFFFD

def isCont (b : UInt8) : Bool := 0x80 ≤ b && b ≤ 0xBF

/-- `utf8.DecodeRune`: the rune and its width (0 only for empty input). -/
def decodeRune : Bytes → Rune × Nat
  | [] => (runeError, 0)
  | b0 :: rest =>
    if b0 < 0x80 then (b0.toNat, 1)
    else if b0 < 0xC2 then (runeError, 1)
    else if b0 < 0xE0 then
      match rest with
      | b1 :: _ => if isCont b1 then ((b0.toNat - 0xC0) * 64 + (b1.toNat - 0x80), 2) else (runeError, 1)
      | _ => (runeError, 1)
    else if b0 < 0xF0 then
      match rest with
      | b1 :: b2 :: _ =>
        let lo : UInt8 := if b0 == 0xE0 then 0xA0 else 0x80
        let hi : UInt8 := if b0 == 0xED then 0x9F else 0xBF
        if lo ≤ b1 && b1 ≤ hi && isCont b2 then
          ((b0.toNat - 0xE0) * 4096 + (b1.toNat - 0x80) * 64 + (b2.toNat - 0x80), 3)
        else (runeError, 1)
      | _ => (runeError, 1)
    else if b0 < 0xF5 then
      match rest with
      | b1 :: b2 :: b3 :: _ =>
        let lo : UInt8 := if b0 == 0xF0 then 0x90 else 0x80
        let hi : UInt8 := if b0 == 0xF4 then 0x8F else 0xBF
        if lo ≤ b1 && b1 ≤ hi && isCont b2 && isCont b3 then
          ((b0.toNat - 0xF0) * 262144 + (b1.toNat - 0x80) * 4096 + (b2.toNat - 0x80) * 64 + (b3.toNat - 0x80), 4)
        else (runeError, 1)
      | _ => (runeError, 1)
    else (runeError, 1)

/-- `unicode.IsSpace` -/
def isSpaceRune (r : Rune) : Bool :=
  r == 0x20 || (0x09 ≤ r && r ≤ 0x0D) || r == 0x85 || r == 0xA0 || r == 0x1680 ||
  (0x2000 ≤ r && r ≤ 0x200A) || r == 0x2028 || r == 0x2029 || r == 0x202F || r == 0x205F || r == 0x3000

/-- all runes of a byte string (Go's `for _, r := range s` / `[]rune(s)`); fuel = length -/
def decodeRunesAux : Nat → Bytes → List Rune
  | 0, _ => []
  | _, [] => []
  | n+1, s@(_ :: _) =>
    let (r, w) := decodeRune s
    r :: decodeRunesAux n (s.drop (max w 1))

def decodeRunes (s : Bytes) : List Rune := decodeRunesAux s.length s

/-- `utf8.AppendRune`; surrogates and out-of-range values encode U+FFFD as Go does -/
def encodeRune (r : Rune) : Bytes :=
  if r < 0x80 then [r.toUInt8]
  else if r < 0x800 then [(0xC0 + r / 64).toUInt8, (0x80 + r % 64).toUInt8]
  else if (0xD800 ≤ r && r ≤ 0xDFFF) || r > 0x10FFFF then [0xEF, 0xBF, 0xBD]
  else if r < 0x10000 then [(0xE0 + r / 4096).toUInt8, (0x80 + r / 64 % 64).toUInt8, (0x80 + r % 64).toUInt8]
  else [(0xF0 + r / 262144).toUInt8, (0x80 + r / 4096 % 64).toUInt8, (0x80 + r / 64 % 64).toUInt8, (0x80 + r % 64).toUInt8]

def encodeRunes (rs : List Rune) : Bytes := (rs.map encodeRune).flatten

/-- `bytes.TrimLeftFunc(b, unicode.IsSpace)`; fuel = length -/
def trimLeftSpaceAux : Nat → Bytes → Bytes
  | 0, s => s
  | _, [] => []
  | n+1, s@(_ :: _) =>
    let (r, w) := decodeRune s
    if isSpaceRune r then trimLeftSpaceAux n (s.drop (max w 1)) else s

def trimLeftSpace (s : Bytes) : Bytes := trimLeftSpaceAux s.length s

/-- position (counted from the end, 0 = last byte) of the first non-continuation byte -/
def findRuneStart : List UInt8 → Nat → Option Nat
  | [], _ => none
  | b :: bs, i => if !isCont b then some i else findRuneStart bs (i+1)

/-- `utf8.DecodeLastRune` on the reversed byte string (head = last byte). Returns rune, width.
    Go looks back over at most `UTFMax` bytes for a start byte and decodes from there; when the
    decoded rune does not end exactly at the end (or no start byte is found) the answer is
    `(RuneError, 1)`. -/
def decodeLastRuneRev (rev : Bytes) : Rune × Nat :=
  match rev with
  | [] => (runeError, 0)
  | last :: _ =>
    if last < 0x80 then (last.toNat, 1)
    else
      match findRuneStart ((rev.take 4).drop 1) 1 with
      | none => (runeError, 1)
      | some i =>
        let (r, w) := decodeRune (rev.take (i + 1)).reverse
        if w == i + 1 then (r, w) else (runeError, 1)

/-- `bytes.TrimRightFunc(b, unicode.IsSpace)` computed on the reversed string; fuel = length -/
def trimRightSpaceRevAux : Nat → Bytes → Bytes
  | 0, rev => rev
  | _, [] => []
  | n+1, rev@(_ :: _) =>
    let (r, w) := decodeLastRuneRev rev
    if isSpaceRune r then trimRightSpaceRevAux n (rev.drop (max w 1)) else rev

def trimRightSpace (s : Bytes) : Bytes := (trimRightSpaceRevAux s.length s.reverse).reverse
