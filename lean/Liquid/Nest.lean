import Liquid.Parse
/-!
# The nesting grammar: the SPECIFICATION of the block parser (property C06)

Nothing in this file mentions a stack or a machine state.

* `Grammar.OK`       — the side conditions under which `AddBlock`/`Clause` build a table without
                       panicking (no `end…` name or clause name collides with a block name, no
                       clause name collides with an `end…` name).
* `WellNested g`     — the declarative grammar over token lists: a sequence of items; an item is a
                       text, object, trim marker, plain tag, `comment … endcomment` (interior free
                       of `endcomment`), `raw … endraw` (interior free of `endraw`) or
                       `open_b items (clause_c items)* end_b` with every `c` admitted by `b`.
* `Derives g chk`    — the same grammar, relating the token list to the tree it denotes (the
                       relation carries comment interiors, which the tree drops, and raw interiors,
                       of which the tree keeps only the sources).
* `unparse`          — prints a tree back to tokens.
* `canon g`          — erases from a token list exactly what the tree does not keep: comment
                       blocks disappear, the interior tokens of a raw block become text tokens
                       with the same source, the raw/endraw tags, every `end…` tag and every trim
                       marker lose their line/args/source fields. Everything else is kept verbatim.
* `AST.wf g chk`     — a tree is well formed: leaves carry tokens of their own kind, every block
                       token opens a block of `g`, every clause is admitted by its block, every
                       object passes `chk`.
-/

/-! ## Reading the grammar table -/

/-- `n` is the name of a block (`AddBlock(n)`) -/
def Grammar.isBlock (g : Grammar) (n : Bytes) : Bool := g.any (fun b => b.name == n)
/-- `n` is `"end" ++ b` for a block `b` -/
def Grammar.isEnd (g : Grammar) (n : Bytes) : Bool := g.any (fun b => endPrefix ++ b.name == n)
/-- `n` is a clause name of some block -/
def Grammar.isClause (g : Grammar) (n : Bytes) : Bool := g.any (fun b => b.clauses.contains n)
/-- the tag name has block syntax (`grammar.BlockSyntax(n)` finds it) -/
def Grammar.known (g : Grammar) (n : Bytes) : Bool := g.isBlock n || g.isEnd n || g.isClause n
/-- block `b` was given `.Clause(c)` -/
def Grammar.admits (g : Grammar) (b c : Bytes) : Bool := g.any (fun d => d.name == b && d.clauses.contains c)

/-- The table can be built by `AddBlock(..).Clause(..)` without a panic other than "duplicate
    definition of a block": no `end…` name is a block name, no clause name is a block name or an
    `end…` name. (Distinctness of block names is not needed by any theorem.) -/
def Grammar.OK (g : Grammar) : Bool :=
  g.all (fun b => !g.isBlock (endPrefix ++ b.name)) &&
  g.all (fun b => b.clauses.all (fun c => !g.isBlock c && !g.isEnd c))

/-! ## Token classes -/

def isEndComment (t : Token) : Bool := t.ty == .tag && t.name == endcommentName
def isEndRaw (t : Token) : Bool := t.ty == .tag && t.name == endrawName
/-- `{% comment %}`, when the table knows the name -/
def Grammar.isCommentOpen (g : Grammar) (t : Token) : Bool :=
  t.ty == .tag && t.name == commentName && g.known commentName
/-- `{% raw %}`, when the table knows the name -/
def Grammar.isRawOpen (g : Grammar) (t : Token) : Bool :=
  t.ty == .tag && t.name == rawName && g.known rawName
/-- a block-opening tag (other than comment/raw, which never open a nesting level) -/
def Grammar.isOpen (g : Grammar) (t : Token) : Bool :=
  t.ty == .tag && g.isBlock t.name && t.name != commentName && t.name != rawName
/-- `c` is a clause tag admitted by the block opened by `o` -/
def Grammar.isClauseOf (g : Grammar) (o c : Token) : Bool :=
  c.ty == .tag && g.admits o.name c.name && c.name != commentName && c.name != rawName
/-- `e` is the end tag of the block opened by `o` -/
def isEndOf (o e : Token) : Bool := e.ty == .tag && e.name == endPrefix ++ o.name
/-- a tag without block syntax -/
def Grammar.isPlain (g : Grammar) (t : Token) : Bool := t.ty == .tag && !g.known t.name
/-- text, object, trim marker or plain tag -/
def Grammar.isLeaf (g : Grammar) (t : Token) : Bool := t.ty != .tag || !g.known t.name

/-! ## The declarative grammar -/

/-- tokens of a clause sequence `(clause_c items)*` -/
def clauseToks : List (Token × List Token) → List Token
  | [] => []
  | (c, ts) :: r => c :: (ts ++ clauseToks r)

/-- A template is well nested. -/
inductive WellNested (g : Grammar) : List Token → Prop
  | nil : WellNested g []
  | leaf (t : Token) (rest : List Token) :
      g.isLeaf t = true → WellNested g rest → WellNested g (t :: rest)
  | comment (o c : Token) (interior rest : List Token) :
      g.isCommentOpen o = true → (∀ t ∈ interior, isEndComment t = false) → isEndComment c = true →
      WellNested g rest → WellNested g (o :: (interior ++ c :: rest))
  | raw (o c : Token) (interior rest : List Token) :
      g.isRawOpen o = true → (∀ t ∈ interior, isEndRaw t = false) → isEndRaw c = true →
      WellNested g rest → WellNested g (o :: (interior ++ c :: rest))
  | block (o e : Token) (body : List Token) (cls : List (Token × List Token)) (rest : List Token) :
      g.isOpen o = true → WellNested g body →
      (∀ sg ∈ cls, g.isClauseOf o sg.1 = true) → (∀ sg, sg ∈ cls → WellNested g sg.2) →
      isEndOf o e = true → WellNested g rest →
      WellNested g (o :: (body ++ (clauseToks cls ++ e :: rest)))

/-! ## Trees: the relation between a token list and the tree it denotes -/

/-- clause segments: clause tag, the tokens of its body, the trees of its body -/
abbrev Seg := Token × List Token × List AST

def segToks : List Seg → List Token
  | [] => []
  | (c, ts, _) :: r => c :: (ts ++ segToks r)

def segASTs : List Seg → List (Token × List AST)
  | [] => []
  | (c, _, ns) :: r => (c, ns) :: segASTs r

/-- `Derives g chk toks ast`: the token list is well nested, every object outside comment/raw
    passes `chk`, and `ast` is the tree whose nesting is the textual nesting of `toks`. -/
inductive Derives (g : Grammar) (chk : Bytes → Option Cause) : List Token → List AST → Prop
  | nil : Derives g chk [] []
  | text (t : Token) (rest : List Token) (ns : List AST) :
      t.ty = .text → Derives g chk rest ns → Derives g chk (t :: rest) (.text t :: ns)
  | obj (t : Token) (rest : List Token) (ns : List AST) :
      t.ty = .obj → chk t.args = none → Derives g chk rest ns → Derives g chk (t :: rest) (.obj t :: ns)
  | trimL (t : Token) (rest : List Token) (ns : List AST) :
      t.ty = .trimL → Derives g chk rest ns → Derives g chk (t :: rest) (.trim true :: ns)
  | trimR (t : Token) (rest : List Token) (ns : List AST) :
      t.ty = .trimR → Derives g chk rest ns → Derives g chk (t :: rest) (.trim false :: ns)
  | tag (t : Token) (rest : List Token) (ns : List AST) :
      g.isPlain t = true → Derives g chk rest ns → Derives g chk (t :: rest) (.tag t :: ns)
  | comment (o c : Token) (interior rest : List Token) (ns : List AST) :
      g.isCommentOpen o = true → (∀ t ∈ interior, isEndComment t = false) → isEndComment c = true →
      Derives g chk rest ns → Derives g chk (o :: (interior ++ c :: rest)) ns
  | raw (o c : Token) (interior rest : List Token) (ns : List AST) :
      g.isRawOpen o = true → (∀ t ∈ interior, isEndRaw t = false) → isEndRaw c = true →
      Derives g chk rest ns →
      Derives g chk (o :: (interior ++ c :: rest)) (.raw (interior.map (·.source)) :: ns)
  | block (o e : Token) (body : List Token) (bns : List AST) (segs : List Seg)
      (rest : List Token) (ns : List AST) :
      g.isOpen o = true → Derives g chk body bns →
      (∀ sg ∈ segs, g.isClauseOf o sg.1 = true) → (∀ sg, sg ∈ segs → Derives g chk sg.2.1 sg.2.2) →
      isEndOf o e = true → Derives g chk rest ns →
      Derives g chk (o :: (body ++ (segToks segs ++ e :: rest))) (.block o bns (segASTs segs) :: ns)

/-! ## Printing a tree -/

/-- a tag token of which only the name is known -/
def bareTag (n : Bytes) : Token := { ty := .tag, name := n }
/-- a text token of which only the source is known -/
def rawText (s : Bytes) : Token := { ty := .text, source := s }
/-- a trim marker (this is exactly what `Scan` emits) -/
def trimTok (left : Bool) : Token := { ty := if left then .trimL else .trimR }

mutual
def AST.unparse : AST → List Token
  | .text t => [t]
  | .obj t => [t]
  | .tag t => [t]
  | .trim l => [trimTok l]
  | .raw sl => bareTag rawName :: (sl.map rawText ++ [bareTag endrawName])
  | .block t body cls => t :: (unparseList body ++ (unparseClauses cls ++ [bareTag (endPrefix ++ t.name)]))
def unparseList : List AST → List Token
  | [] => []
  | n :: ns => n.unparse ++ unparseList ns
def unparseClauses : List (Token × List AST) → List Token
  | [] => []
  | (c, body) :: cs => c :: (unparseList body ++ unparseClauses cs)
end

/-- prints a tree (a node list, as `parseTokens` returns it) back to tokens -/
abbrev unparse : List AST → List Token := unparseList

/-! ## What the tree keeps of a token list -/

inductive CMode where
  | normal | comment | raw
  deriving Repr, DecidableEq

/-- what the tree keeps of a token outside comment/raw: everything, except the fields of end tags
    and trim markers -/
def canonTok (g : Grammar) (t : Token) : Token :=
  match t.ty with
  | .trimL => trimTok true
  | .trimR => trimTok false
  | .tag => if !g.isBlock t.name && g.isEnd t.name then bareTag t.name else t
  | _ => t

/-- `canon g` in mode `m` (see the header). After an unterminated `comment` nothing is kept. -/
def canonM (g : Grammar) : CMode → List Token → List Token
  | _, [] => []
  | .comment, t :: ts => if isEndComment t then canonM g .normal ts else canonM g .comment ts
  | .raw, t :: ts =>
    if isEndRaw t then bareTag endrawName :: canonM g .normal ts
    else rawText t.source :: canonM g .raw ts
  | .normal, t :: ts =>
    if g.isCommentOpen t then canonM g .comment ts
    else if g.isRawOpen t then bareTag rawName :: canonM g .raw ts
    else canonTok g t :: canonM g .normal ts

def canon (g : Grammar) (toks : List Token) : List Token := canonM g .normal toks

/-- the expression parser accepts the arguments of every object outside comment/raw interiors -/
def ObjsOk (g : Grammar) (chk : Bytes → Option Cause) (toks : List Token) : Prop :=
  ∀ t ∈ canon g toks, t.ty = .obj → chk t.args = none

/-! ## Well-formed trees -/

mutual
def AST.wf (g : Grammar) (chk : Bytes → Option Cause) : AST → Bool
  | .text t => t.ty == .text
  | .obj t => t.ty == .obj && (chk t.args).isNone
  | .tag t => g.isPlain t
  | .trim _ => true
  | .raw _ => g.known rawName
  | .block o body cls => g.isOpen o && wfList g chk body && wfClauses g chk o cls
def wfList (g : Grammar) (chk : Bytes → Option Cause) : List AST → Bool
  | [] => true
  | n :: ns => n.wf g chk && wfList g chk ns
def wfClauses (g : Grammar) (chk : Bytes → Option Cause) (o : Token) : List (Token × List AST) → Bool
  | [] => true
  | (c, body) :: cs => g.isClauseOf o c && wfList g chk body && wfClauses g chk o cs
end

/-- structural well-formedness only: every clause admitted by its block, leaves of their kind -/
abbrev AST.WF (g : Grammar) : AST → Bool := AST.wf g (fun _ => none)
abbrev WFList (g : Grammar) : List AST → Bool := wfList g (fun _ => none)
