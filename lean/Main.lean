import Liquid.Driver

partial def loop (h : IO.FS.Stream) (out : IO.FS.Stream) : IO Unit := do
  let line ← h.getLine
  if line.isEmpty then return ()
  let l := (line.dropEndWhile (fun c => c == '\n' || c == '\r')).toString
  out.putStrLn (runCase l)
  loop h out

def main : IO Unit := do
  let out ← IO.getStdout
  loop (← IO.getStdin) out
  out.flush
