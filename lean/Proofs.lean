import Proofs.ScanLemmas
import Proofs.C05
import Proofs.ConcLemmas
import Proofs.C04
