import Proofs.ScanLemmas
import Proofs.C05
import Proofs.CompareLemmas
import Proofs.C09
