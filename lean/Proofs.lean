import Proofs.ScanLemmas
import Proofs.C05
