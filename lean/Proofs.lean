import Proofs.ScanLemmas
import Proofs.C05
import Proofs.NumLemmas
import Proofs.C17
