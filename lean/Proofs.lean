import Proofs.ScanLemmas
import Proofs.C05
import Proofs.NestLemmas
import Proofs.ParseLemmas
import Proofs.C06
