import Proofs.ScanLemmas
import Proofs.C05
import Proofs.ParseLemmas
import Proofs.C06
