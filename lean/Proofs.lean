import Proofs.ScanLemmas
import Proofs.C05
import Proofs.Utf8Lemmas
import Proofs.C16
