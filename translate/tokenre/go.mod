module veriftranslate/tokenre

go 1.21
