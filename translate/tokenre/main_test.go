package main

import (
	"os"
	"path/filepath"
	"strings"
	"testing"
)

const head = `package parser

import (
	"fmt"
	"regexp"
	"strings"
)

func Scan(delims []string) { _ = formTokenMatcher(delims) }

`

func run(t *testing.T, body string) (string, string, []string) {
	t.Helper()
	f := filepath.Join(t.TempDir(), "scanner.go")
	if err := os.WriteFile(f, []byte(head+body), 0o644); err != nil {
		t.Fatal(err)
	}
	content, pattern, broken, err := generate(f, filepath.Join(t.TempDir(), "none"))
	if err != nil {
		t.Fatal(err)
	}
	return content, pattern, broken
}

const std = "func formTokenMatcher(delims []string) *regexp.Regexp {\n" +
	"	exclusion := make([]string, 0, len(delims[3]))\n" +
	"	for idx, val := range delims[3] {\n" +
	"		exclusion = append(exclusion, regexp.QuoteMeta(delims[3][0:idx])+\"[^\"+regexp.QuoteMeta(string(val))+\"]\")\n" +
	"	}\n" +
	"	tokenMatcher := regexp.MustCompile(\n" +
	"		fmt.Sprintf(`%s-?(\\w+)(?:%v)%s`, regexp.QuoteMeta(delims[0]), strings.Join(exclusion, \"|\"), regexp.QuoteMeta(delims[3])),\n" +
	"	)\n" +
	"	return tokenMatcher\n" +
	"}\n"

func TestStandardShape(t *testing.T) {
	content, pattern, broken := run(t, std)
	if len(broken) != 0 {
		t.Fatalf("unexpected: %v", broken)
	}
	for _, w := range []string{
		"args := [.quote (.delim 0), .joinExcl [124], .quote (.delim 3)]",
		"exclOver := 3",
		"exclItem := .cat (.quote (.delimPrefix 3)) (.cat (.lit [91, 94]) (.cat (.quote .rangeVal) (.lit [93])))",
		"format := [37, 115, 45, 63, 40, 92, 119, 43, 41, 40, 63, 58, 37, 115, 41, 37, 115]",
	} {
		if !strings.Contains(content, w) {
			t.Errorf("missing %q in\n%s", w, content)
		}
	}
	if want := `\{\{-?(\w+)(?:[^%]|%[^\}])%\}`; pattern != want {
		t.Errorf("pattern %q, want %q", pattern, want)
	}
}

// equivalent spellings give the same structure: other association of +, split literals, [:idx], direct return
func TestHarmlessVariants(t *testing.T) {
	v := strings.Replace(std, `regexp.QuoteMeta(delims[3][0:idx])+"[^"+regexp.QuoteMeta(string(val))+"]"`,
		`regexp.QuoteMeta(delims[3][:idx])+("["+"^"+(regexp.QuoteMeta(string(val))+"]"+""))`, 1)
	v = strings.Replace(v, "tokenMatcher := regexp.MustCompile(", "return regexp.MustCompile(", 1)
	v = strings.Replace(v, "	return tokenMatcher\n", "", 1)
	a, _, b1 := run(t, std)
	b, _, b2 := run(t, v)
	if len(b1)+len(b2) != 0 || a != b {
		t.Errorf("variants differ: %v %v\n%s\n%s", b1, b2, a, b)
	}
}

func TestNotUnderstood(t *testing.T) {
	cases := map[string][2]string{
		"extra statement":   {"	tokenMatcher := regexp.MustCompile(", "	fmt.Println()\n	tokenMatcher := regexp.MustCompile("},
		"unquoted in class": {"regexp.QuoteMeta(string(val))", "string(val)"}, // understood, but a different structure: no broken line from extraction
		"other function":    {"regexp.QuoteMeta(delims[0])", "strings.ToLower(delims[0])"},
		"computed format":   {"fmt.Sprintf(`%s-?(\\w+)(?:%v)%s`,", "fmt.Sprintf(strings.Repeat(`%s`, 3),"},
		"loop over other":   {"range delims[3] {", "range delims[2] {"},
		"nonempty make":     {"make([]string, 0, len(delims[3]))", "make([]string, 1)"},
		"two appends":       {"		exclusion = append(", "		exclusion = append(exclusion, \"x\")\n		exclusion = append("},
		"shadowed package":  {"	exclusion := make", "	regexp := other{}\n	exclusion := make"},
	}
	for name, c := range cases {
		if !strings.Contains(std, c[0]) {
			t.Fatalf("%s: bad test", name)
		}
		content, _, broken := run(t, strings.Replace(std, c[0], c[1], 1))
		if name == "unquoted in class" {
			if len(broken) != 0 || !strings.Contains(content, "(.cat (.rangeVal) (.lit [93]))") && !strings.Contains(content, ".cat .rangeVal (.lit [93])") {
				t.Errorf("%s: %v\n%s", name, broken, content)
			}
			continue
		}
		if len(broken) == 0 || !strings.Contains(content, "NOT TRANSLATED") || !strings.Contains(content, "format := [], args := []") {
			t.Errorf("%s: expected a broken obligation and an empty structure, got %v\n%s", name, broken, content)
		}
	}
}

func TestDiagnostics(t *testing.T) {
	dir := t.TempDir()
	f := filepath.Join(dir, "scanner.go")
	os.WriteFile(f, []byte(head+std), 0o644)
	model := filepath.Join(dir, "TokenReSrc.lean")
	os.WriteFile(model, []byte("def stdTokenReSrc : TokenReSrc :=\n  { format := [37, 115, 45, 63, 40, 92, 119, 42, 41, 40, 63, 58, 37, 115, 41, 37, 115],\n"+
		"    args := [.quote (.delim 0), .joinExcl [124], .quote (.delim 3)],\n    exclOver := 3,\n"+
		"    exclItem := .cat (.quote (.delimPrefix 3)) (.cat (.lit [91, 94]) (.cat (.quote .rangeVal) (.lit [93]))) }\n"), 0o644)
	_, _, broken, err := generate(f, model)
	if err != nil || len(broken) != 1 || !strings.Contains(broken[0], "first difference at byte 7") {
		t.Errorf("got %v %v", broken, err)
	}
}

// the same pattern text spelled as a concatenation through named intermediates is read as the same structure
func TestConcatenationSpelling(t *testing.T) {
	concat := "func formTokenMatcher(delims []string) *regexp.Regexp {\n" +
		"	exclusion := make([]string, 0, len(delims[3]))\n" +
		"	for idx, val := range delims[3] {\n" +
		"		exclusion = append(exclusion, regexp.QuoteMeta(delims[3][0:idx])+\"[^\"+regexp.QuoteMeta(string(val))+\"]\")\n" +
		"	}\n" +
		"	objLeft := regexp.QuoteMeta(delims[0])\n" +
		"	tagRight := regexp.QuoteMeta(delims[3])\n" +
		"	args := `(?:` + strings.Join(exclusion, \"|\") + `)`\n" +
		"	pattern := objLeft + `-?(\\w+)` + args + tagRight\n" +
		"	_ = fmt.Sprint\n" +
		"	return regexp.MustCompile(pattern)\n" +
		"}\n"
	ca, pa, ba := run(t, std)
	cb, pb, bb := run(t, strings.Replace(concat, "	_ = fmt.Sprint\n", "", 1)+"var _ = fmt.Sprint\n")
	if len(ba) != 0 || len(bb) != 0 {
		t.Fatalf("unexpected: %v / %v", ba, bb)
	}
	if pa != pb {
		t.Fatalf("patterns differ: %q vs %q", pa, pb)
	}
	strip := func(c string) string { return c[strings.Index(c, "def genTokenReSrc"):] }
	if strip(ca) != strip(cb) {
		t.Fatalf("the two spellings are read differently:\n%s\n---\n%s", ca, cb)
	}
}
