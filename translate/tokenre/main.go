// Command tokenre is translator T4 (DESIGN 5.4): the token pattern.
//
// `parser/scanner.go` builds the token regular expression in `formTokenMatcher(delims []string)`:
// a loop fills a slice with one alternative per character of one delimiter, and
// `regexp.MustCompile(fmt.Sprintf(FORMAT, args…))` compiles the text. The translator reads that
// function with go/ast — it does not run it — and writes Liquid/Generated/TokenRe.lean:
//
//	def genTokenReSrc : TokenReSrc       -- vocabulary of Liquid/TokenReSrc.lean
//
// holding the format string (bytes of the literal), the argument expressions, the index of the
// delimiter the loop ranges over and the expression appended per iteration, as `StrExpr` trees over
// string literals, `delims[i]`, `delims[i][0:idx]`, `string(val)`, `regexp.QuoteMeta(e)`, `a + b`
// (re-associated to the right), `strings.Join(exclusion, sep)`. The obligation
// `token_re_is_source` (Proofs/TokenRe.lean) evaluates these expressions in Lean and equates the
// resulting text with the model's token expression printed in Go syntax.
//
//	go run . -repo /repo -out ../../lean/Liquid/Generated
//
// Anything the translator does not understand — another statement in the function, an expression
// outside the vocabulary, a shadowed package name — is never guessed: it prints
//
//	OBLIGATION token_re_is_source BROKEN <fact>
//
// and writes an empty `genTokenReSrc` (so that the Lean obligation fails as well). Exit status 1 only
// when parser/scanner.go cannot be parsed at all.
package main

import (
	"flag"
	"fmt"
	"go/ast"
	"go/parser"
	"go/token"
	"os"
	"path/filepath"
	"regexp"
	"regexp/syntax"
	"strconv"
	"strings"
)

const obligation = "token_re_is_source"

// expr is a StrExpr of Liquid/TokenReSrc.lean.
type expr struct {
	kind string // lit delim delimPrefix rangeVal quote cat joinExcl
	s    string
	i    int
	a, b *expr
}

func leanBytes(s string) string {
	parts := make([]string, len(s))
	for i := 0; i < len(s); i++ {
		parts[i] = strconv.Itoa(int(s[i]))
	}
	return "[" + strings.Join(parts, ", ") + "]"
}

func (e *expr) lean() string {
	switch e.kind {
	case "lit":
		return ".lit " + leanBytes(e.s)
	case "delim":
		return fmt.Sprintf(".delim %d", e.i)
	case "delimPrefix":
		return fmt.Sprintf(".delimPrefix %d", e.i)
	case "rangeVal":
		return ".rangeVal"
	case "quote":
		return ".quote " + paren(e.a)
	case "cat":
		return ".cat " + paren(e.a) + " " + paren(e.b)
	case "joinExcl":
		return ".joinExcl " + leanBytes(e.s)
	}
	panic("unknown expr kind " + e.kind)
}

func paren(e *expr) string {
	if e.kind == "rangeVal" {
		return e.lean()
	}
	return "(" + e.lean() + ")"
}

// eval is the translator's own reading of the expressions (used only to print the pattern for the
// default delimiters into the log and the generated comment; the checked reading is the Lean one).
func (e *expr) eval(delims []string, idx int, val string, excl []string) string {
	switch e.kind {
	case "lit":
		return e.s
	case "delim":
		if e.i < len(delims) {
			return delims[e.i]
		}
		return ""
	case "delimPrefix":
		if e.i < len(delims) && idx <= len(delims[e.i]) {
			return delims[e.i][:idx]
		}
		return ""
	case "rangeVal":
		return val
	case "quote":
		return quoteMeta(e.a.eval(delims, idx, val, excl))
	case "cat":
		return e.a.eval(delims, idx, val, excl) + e.b.eval(delims, idx, val, excl)
	case "joinExcl":
		return strings.Join(excl, e.s)
	}
	return ""
}

func quoteMeta(s string) string {
	var sb strings.Builder
	for i := 0; i < len(s); i++ {
		if strings.IndexByte(`\.+*?()|[]{}^$`, s[i]) >= 0 {
			sb.WriteByte('\\')
		}
		sb.WriteByte(s[i])
	}
	return sb.String()
}

// rightAssoc flattens a tree of cat nodes and rebuilds it nested to the right.
func rightAssoc(e *expr) *expr {
	var leaves []*expr
	var walk func(x *expr)
	walk = func(x *expr) {
		if x.kind == "cat" {
			walk(x.a)
			walk(x.b)
			return
		}
		if x.kind == "quote" {
			x = &expr{kind: "quote", a: rightAssoc(x.a)}
		}
		leaves = append(leaves, x)
	}
	walk(e)
	// adjacent literals are one literal, an empty literal is nothing ("[" + "^" and "[^" + "" are "[^")
	var merged []*expr
	for _, l := range leaves {
		if l.kind == "lit" && l.s == "" {
			continue
		}
		if n := len(merged); n > 0 && l.kind == "lit" && merged[n-1].kind == "lit" {
			merged[n-1] = &expr{kind: "lit", s: merged[n-1].s + l.s}
			continue
		}
		merged = append(merged, l)
	}
	if len(merged) == 0 {
		merged = []*expr{{kind: "lit", s: ""}}
	}
	leaves = merged
	out := leaves[len(leaves)-1]
	for i := len(leaves) - 2; i >= 0; i-- {
		out = &expr{kind: "cat", a: leaves[i], b: out}
	}
	return out
}

type tr struct {
	fset     *token.FileSet
	imports  map[string]string // local name -> import path
	param    string            // the []string parameter
	exclVar  string            // the slice filled by the loop ("" before its declaration)
	loopKey  string            // inside the loop: key and value identifiers, and the delimiter ranged over
	loopVal  string
	loopIdx  int
	inLoop   bool
	loopDone bool
	locals   map[string]*expr // string-valued locals defined once by `name := <string-building expression>`
	broken   []string
}

func (t *tr) brk(pos token.Pos, format string, a ...any) {
	msg := fmt.Sprintf(format, a...)
	if pos.IsValid() {
		p := t.fset.Position(pos)
		msg = fmt.Sprintf("%s (%s:%d)", msg, filepath.Base(p.Filename), p.Line)
	}
	t.broken = append(t.broken, strings.Join(strings.Fields(msg), " "))
}

func (t *tr) src(n ast.Node) string {
	p, q := t.fset.Position(n.Pos()), t.fset.Position(n.End())
	data, err := os.ReadFile(p.Filename)
	if err != nil || q.Offset > len(data) {
		return "?"
	}
	return string(data[p.Offset:q.Offset])
}

// pkgCall recognises `pkg.Fn(args…)` where the local name pkg is bound to the import path.
func (t *tr) pkgCall(e ast.Expr, path, fn string) ([]ast.Expr, bool) {
	call, ok := e.(*ast.CallExpr)
	if !ok || call.Ellipsis.IsValid() {
		return nil, false
	}
	sel, ok := call.Fun.(*ast.SelectorExpr)
	if !ok || sel.Sel.Name != fn {
		return nil, false
	}
	id, ok := sel.X.(*ast.Ident)
	if !ok || t.imports[id.Name] != path || id.Obj != nil { // id.Obj != nil: a local object shadows the package
		return nil, false
	}
	return call.Args, true
}

func intLit(e ast.Expr) (int, bool) {
	bl, ok := e.(*ast.BasicLit)
	if !ok || bl.Kind != token.INT {
		return 0, false
	}
	n, err := strconv.Atoi(bl.Value)
	return n, err == nil
}

func isIdent(e ast.Expr, name string) bool {
	id, ok := e.(*ast.Ident)
	return ok && name != "" && id.Name == name
}

// delimIndex recognises `param[i]`.
func (t *tr) delimIndex(e ast.Expr) (int, bool) {
	ix, ok := e.(*ast.IndexExpr)
	if !ok || !isIdent(ix.X, t.param) {
		return 0, false
	}
	return intLit(ix.Index)
}

// strExpr translates a Go string expression; nil = not in the vocabulary (already reported).
func (t *tr) strExpr(e ast.Expr) *expr {
	switch x := e.(type) {
	case *ast.ParenExpr:
		return t.strExpr(x.X)
	case *ast.Ident:
		// a local defined once by `name := <string-building expression>` stands for that expression
		if v, ok := t.locals[x.Name]; ok {
			return v
		}
	case *ast.BasicLit:
		if x.Kind == token.STRING {
			s, err := strconv.Unquote(x.Value)
			if err == nil {
				return &expr{kind: "lit", s: s}
			}
		}
	case *ast.BinaryExpr:
		if x.Op == token.ADD {
			a, b := t.strExpr(x.X), t.strExpr(x.Y)
			if a == nil || b == nil {
				return nil
			}
			return &expr{kind: "cat", a: a, b: b}
		}
	case *ast.IndexExpr:
		if i, ok := t.delimIndex(x); ok {
			return &expr{kind: "delim", i: i}
		}
	case *ast.SliceExpr:
		// param[i][0:key] or param[i][:key] inside the loop over param[i]
		if i, ok := t.delimIndex(x.X); ok && t.inLoop && i == t.loopIdx && !x.Slice3 && isIdent(x.High, t.loopKey) {
			if x.Low == nil {
				return &expr{kind: "delimPrefix", i: i}
			}
			if n, ok := intLit(x.Low); ok && n == 0 {
				return &expr{kind: "delimPrefix", i: i}
			}
		}
	case *ast.CallExpr:
		if args, ok := t.pkgCall(x, "regexp", "QuoteMeta"); ok && len(args) == 1 {
			a := t.strExpr(args[0])
			if a == nil {
				return nil
			}
			return &expr{kind: "quote", a: a}
		}
		if args, ok := t.pkgCall(x, "strings", "Join"); ok && len(args) == 2 && !t.inLoop && t.loopDone && isIdent(args[0], t.exclVar) {
			if sep := t.strExpr(args[1]); sep != nil && sep.kind == "lit" {
				return &expr{kind: "joinExcl", s: sep.s}
			}
		}
		// string(val): conversion of the loop value
		if id, ok := x.Fun.(*ast.Ident); ok && id.Name == "string" && id.Obj == nil && len(x.Args) == 1 && t.inLoop && isIdent(x.Args[0], t.loopVal) {
			return &expr{kind: "rangeVal"}
		}
	}
	t.brk(e.Pos(), "formTokenMatcher: the expression `%s` is outside the translator's vocabulary (string literal, delims[i], delims[i][0:idx], string(val), regexp.QuoteMeta, +, strings.Join(exclusion, sep))", t.src(e))
	return nil
}

type result struct {
	format   string
	args     []*expr
	exclOver int
	exclItem *expr
}

// compileCall recognises regexp.MustCompile(fmt.Sprintf(FORMAT, args…)).
func (t *tr) compileCall(e ast.Expr, res *result) bool {
	args, ok := t.pkgCall(e, "regexp", "MustCompile")
	if !ok || len(args) != 1 {
		return false
	}
	sargs, ok := t.pkgCall(args[0], "fmt", "Sprintf")
	if !ok || len(sargs) < 1 {
		// the same text spelled as a concatenation (possibly through named intermediates): canonical form =
		// the literal stretches as the format (a literal % doubled) and one %s per non-literal piece
		{
			if x := t.strExprQuiet(args[0]); x != nil {
				var leaves []*expr
				var flat func(e *expr)
				flat = func(e *expr) {
					if e.kind == "cat" {
						flat(e.a)
						flat(e.b)
						return
					}
					leaves = append(leaves, e)
				}
				flat(x)
				var fb strings.Builder
				for _, l := range leaves {
					if l.kind == "lit" {
						fb.WriteString(strings.ReplaceAll(l.s, "%", "%%"))
						continue
					}
					fb.WriteString("%s")
					res.args = append(res.args, rightAssoc(l))
				}
				res.format = fb.String()
				return true
			}
		}
		t.brk(e.Pos(), "formTokenMatcher: the argument of regexp.MustCompile is neither fmt.Sprintf(format, …) nor a concatenation of string-building expressions")
		return true
	}
	f := t.strExpr(sargs[0])
	if f == nil {
		return true
	}
	if f.kind != "lit" {
		t.brk(sargs[0].Pos(), "formTokenMatcher: the format of fmt.Sprintf is not a string literal")
		return true
	}
	// %v and %s print a string alike (every argument of the vocabulary is a string): one canonical verb
	res.format = canonVerbs(f.s)
	for _, a := range sargs[1:] {
		x := t.strExpr(a)
		if x == nil {
			return true
		}
		res.args = append(res.args, rightAssoc(x))
	}
	return true
}

func (t *tr) function(fd *ast.FuncDecl) *result {
	ps := fd.Type.Params
	if ps == nil || len(ps.List) != 1 || len(ps.List[0].Names) != 1 {
		t.brk(fd.Pos(), "formTokenMatcher: expected exactly one parameter")
		return nil
	}
	if at, ok := ps.List[0].Type.(*ast.ArrayType); !ok || at.Len != nil || !isIdent(at.Elt, "string") {
		t.brk(fd.Pos(), "formTokenMatcher: the parameter is not a []string")
		return nil
	}
	t.param = ps.List[0].Names[0].Name
	res := &result{exclOver: -1}
	compiled := "" // variable holding the compiled expression
	seenCompile, returned := false, false
	for _, st := range fd.Body.List {
		if returned {
			t.brk(st.Pos(), "formTokenMatcher: statement after return")
			break
		}
		switch s := st.(type) {
		case *ast.AssignStmt:
			if s.Tok == token.DEFINE && len(s.Lhs) > 1 && len(s.Lhs) == len(s.Rhs) && !seenCompile {
				// a, b := <string-building expression>, <string-building expression>
				all := true
				defs := map[string]*expr{}
				for i := range s.Lhs {
					name, _ := s.Lhs[i].(*ast.Ident)
					if name == nil {
						all = false
						break
					}
					if _, dup := t.locals[name.Name]; dup {
						all = false
						break
					}
					x := t.strExprQuiet(s.Rhs[i])
					if x == nil {
						all = false
						break
					}
					defs[name.Name] = x
				}
				if all {
					for k, v := range defs {
						t.locals[k] = v
					}
					continue
				}
			}
			if s.Tok == token.DEFINE && len(s.Lhs) == 1 && len(s.Rhs) == 1 {
				name, _ := s.Lhs[0].(*ast.Ident)
				if name != nil && t.exclVar == "" && t.isEmptyStringSlice(s.Rhs[0]) {
					t.exclVar = name.Name
					continue
				}
				if name != nil && !seenCompile && t.compileCall(s.Rhs[0], res) {
					compiled, seenCompile = name.Name, true
					continue
				}
				if name != nil && !seenCompile {
					if _, dup := t.locals[name.Name]; !dup {
						if x := t.strExprQuiet(s.Rhs[0]); x != nil {
							t.locals[name.Name] = x
							continue
						}
					}
				}
			}
			t.brk(st.Pos(), "formTokenMatcher: the statement `%s` is not understood", firstLine(t.src(st)))
		case *ast.DeclStmt:
			// var exclusion []string
			if gd, ok := s.Decl.(*ast.GenDecl); ok && gd.Tok == token.VAR && len(gd.Specs) == 1 && t.exclVar == "" {
				vs := gd.Specs[0].(*ast.ValueSpec)
				if at, ok := vs.Type.(*ast.ArrayType); ok && at.Len == nil && isIdent(at.Elt, "string") && len(vs.Names) == 1 && len(vs.Values) == 0 {
					t.exclVar = vs.Names[0].Name
					continue
				}
			}
			t.brk(st.Pos(), "formTokenMatcher: the declaration `%s` is not understood", firstLine(t.src(st)))
		case *ast.RangeStmt:
			t.loop(s, res)
		case *ast.ReturnStmt:
			returned = true
			if len(s.Results) != 1 {
				t.brk(st.Pos(), "formTokenMatcher: return does not have one result")
				continue
			}
			if seenCompile && isIdent(s.Results[0], compiled) {
				continue
			}
			if !seenCompile && t.compileCall(s.Results[0], res) {
				seenCompile = true
				continue
			}
			t.brk(st.Pos(), "formTokenMatcher: the returned value is not the expression compiled by regexp.MustCompile(fmt.Sprintf(…))")
		default:
			t.brk(st.Pos(), "formTokenMatcher: the statement `%s` is not understood", firstLine(t.src(st)))
		}
	}
	if !seenCompile {
		t.brk(fd.Pos(), "formTokenMatcher: no regexp.MustCompile(fmt.Sprintf(…)) found")
	}
	if !returned {
		t.brk(fd.Pos(), "formTokenMatcher: no return statement")
	}
	if res.exclOver < 0 {
		// no loop: the vocabulary of TokenReSrc needs one; an item that is never joined is harmless
		t.brk(fd.Pos(), "formTokenMatcher: no `for idx, val := range delims[i]` loop found")
	}
	return res
}

func firstLine(s string) string {
	if i := strings.IndexByte(s, '\n'); i >= 0 {
		return s[:i] + " …"
	}
	return s
}

// isEmptyStringSlice recognises make([]string, 0[, cap]), []string{} and []string(nil).
func (t *tr) isEmptyStringSlice(e ast.Expr) bool {
	strSlice := func(x ast.Expr) bool {
		at, ok := x.(*ast.ArrayType)
		return ok && at.Len == nil && isIdent(at.Elt, "string")
	}
	switch x := e.(type) {
	case *ast.CallExpr:
		if id, ok := x.Fun.(*ast.Ident); ok && id.Name == "make" && id.Obj == nil && (len(x.Args) == 2 || len(x.Args) == 3) && strSlice(x.Args[0]) {
			n, ok := intLit(x.Args[1])
			return ok && n == 0
		}
		if strSlice(x.Fun) && len(x.Args) == 1 && isIdent(x.Args[0], "nil") {
			return true
		}
	case *ast.CompositeLit:
		return strSlice(x.Type) && len(x.Elts) == 0
	}
	return false
}

// loop recognises `for key, val := range param[i] { excl = append(excl, ITEM) }`.
func (t *tr) loop(s *ast.RangeStmt, res *result) {
	if t.loopDone {
		t.brk(s.Pos(), "formTokenMatcher: a second range loop")
		return
	}
	t.loopDone = true
	i, ok := t.delimIndex(s.X)
	key, _ := s.Key.(*ast.Ident)
	val, _ := s.Value.(*ast.Ident)
	if !ok || s.Tok != token.DEFINE || key == nil || val == nil || t.exclVar == "" {
		t.brk(s.Pos(), "formTokenMatcher: the loop is not `for idx, val := range delims[i]` after the declaration of an empty []string")
		return
	}
	if len(s.Body.List) != 1 {
		t.brk(s.Pos(), "formTokenMatcher: the loop body is not the single statement `exclusion = append(exclusion, item)`")
		return
	}
	as, ok := s.Body.List[0].(*ast.AssignStmt)
	if !ok || as.Tok != token.ASSIGN || len(as.Lhs) != 1 || len(as.Rhs) != 1 || !isIdent(as.Lhs[0], t.exclVar) {
		t.brk(s.Body.Pos(), "formTokenMatcher: the loop body is not `exclusion = append(exclusion, item)`")
		return
	}
	call, ok := as.Rhs[0].(*ast.CallExpr)
	if !ok || !isIdent(call.Fun, "append") || call.Fun.(*ast.Ident).Obj != nil || len(call.Args) != 2 || call.Ellipsis.IsValid() || !isIdent(call.Args[0], t.exclVar) {
		t.brk(s.Body.Pos(), "formTokenMatcher: the loop body is not `exclusion = append(exclusion, item)`")
		return
	}
	t.inLoop, t.loopKey, t.loopVal, t.loopIdx = true, key.Name, val.Name, i
	item := t.strExpr(call.Args[1])
	t.inLoop = false
	if item == nil {
		return
	}
	res.exclOver, res.exclItem = i, rightAssoc(item)
}

// generate reads srcPath (parser/scanner.go) and returns the text of TokenRe.lean, the pattern the translator
// itself reads for the default delimiters (log only) and the facts that break the obligation.
// modelFile: Liquid/TokenReSrc.lean (diagnostics).
func generate(srcPath, modelFile string) (content, pattern string, broken []string, err error) {
	fset := token.NewFileSet()
	f, err := parser.ParseFile(fset, srcPath, nil, 0)
	if err != nil {
		return "", "", nil, err
	}
	t := &tr{fset: fset, imports: map[string]string{}, locals: map[string]*expr{}}
	for _, im := range f.Imports {
		path, _ := strconv.Unquote(im.Path.Value)
		name := filepath.Base(path)
		if im.Name != nil {
			name = im.Name.Name
		}
		t.imports[name] = path
	}
	var fd *ast.FuncDecl
	n := 0
	for _, d := range f.Decls {
		if x, ok := d.(*ast.FuncDecl); ok && x.Recv == nil && x.Name.Name == "formTokenMatcher" && x.Body != nil {
			fd = x
			n++
		}
	}
	var res *result
	if n != 1 {
		t.brk(token.NoPos, "func formTokenMatcher not found in parser/scanner.go")
	} else {
		res = t.function(fd)
	}
	// Scan must hand its (defaulted) delimiter list to formTokenMatcher: exactly one call in the file
	calls := 0
	ast.Inspect(f, func(x ast.Node) bool {
		if c, ok := x.(*ast.CallExpr); ok && isIdent(c.Fun, "formTokenMatcher") {
			calls++
		}
		return true
	})
	if n == 1 && calls != 1 {
		t.brk(token.NoPos, "formTokenMatcher is called %d times in parser/scanner.go (expected once, by Scan)", calls)
	}

	ok := len(t.broken) == 0 && res != nil && res.exclItem != nil
	var sb strings.Builder
	sb.WriteString("import Liquid.TokenReSrc\n")
	sb.WriteString("/-! GENERATED by translate/tokenre (translator T4) from parser/scanner.go (formTokenMatcher). Do not edit. -/\n\n")
	if ok {
		// the translator's own reading, for the log and the comment only
		d := []string{"{{", "}}", "{%", "%}"}
		var excl []string
		if res.exclOver < len(d) {
			for idx, val := range d[res.exclOver] {
				excl = append(excl, res.exclItem.eval(d, idx, string(val), nil))
			}
		}
		vals := make([]any, len(res.args))
		for i, a := range res.args {
			vals[i] = a.eval(d, 0, "", excl)
		}
		pattern = fmt.Sprintf(res.format, vals...)
		if _, err := syntax.Parse(pattern, syntax.Perl); err != nil {
			fmt.Printf("T4: note: Go's regexp/syntax rejects the pattern read for the default delimiters: %v\n", err)
		}
		args := make([]string, len(res.args))
		for i, a := range res.args {
			args[i] = a.lean()
		}
		fmt.Fprintf(&sb, "/-- format: %s\n    for the default delimiters the translator reads the pattern as: %s -/\n",
			commentSafe(strconv.Quote(res.format)), commentSafe(strconv.Quote(pattern)))
		fmt.Fprintf(&sb, "def genTokenReSrc : TokenReSrc :=\n  { format := %s,\n    args := [%s],\n    exclOver := %d,\n    exclItem := %s }\n",
			leanBytes(res.format), strings.Join(args, ", "), res.exclOver, res.exclItem.lean())
		t.diagnose(modelFile, res)
	} else {
		sb.WriteString("/-- NOT TRANSLATED (reported as OBLIGATION " + obligation + " BROKEN):\n")
		for _, b := range t.broken {
			sb.WriteString("    " + commentSafe(b) + "\n")
		}
		sb.WriteString("-/\ndef genTokenReSrc : TokenReSrc :=\n  { format := [], args := [], exclOver := 0, exclItem := .lit [] }\n")
	}
	return sb.String(), pattern, t.broken, nil
}

func main() {
	repo := flag.String("repo", "/repo", "repository root")
	out := flag.String("out", "", "output directory (…/lean/Liquid/Generated)")
	flag.Parse()
	if *out == "" {
		fmt.Fprintln(os.Stderr, "translate/tokenre: -out is required")
		os.Exit(1)
	}
	srcPath := filepath.Join(*repo, "parser", "scanner.go")
	content, pattern, broken, err := generate(srcPath, filepath.Join(*out, "..", "TokenReSrc.lean"))
	if err != nil {
		fmt.Fprintf(os.Stderr, "translate/tokenre: FAILED: cannot parse %s: %v\n", srcPath, err)
		fmt.Printf("OBLIGATION %s BROKEN translator T4 cannot parse parser/scanner.go: %s\n", obligation, strings.Join(strings.Fields(err.Error()), " "))
		os.Exit(1)
	}
	for _, b := range broken {
		fmt.Printf("OBLIGATION %s BROKEN %s\n", obligation, b)
	}
	if err := os.MkdirAll(*out, 0o755); err != nil {
		fmt.Fprintf(os.Stderr, "translate/tokenre: %v\n", err)
		os.Exit(1)
	}
	dst := filepath.Join(*out, "TokenRe.lean")
	if old, err := os.ReadFile(dst); err == nil && string(old) == content {
		fmt.Printf("T4: %s unchanged (pattern for the default delimiters: %s)\n", dst, pattern)
		return
	}
	tmp := dst + ".tmp"
	if err := os.WriteFile(tmp, []byte(content), 0o644); err != nil {
		fmt.Fprintf(os.Stderr, "translate/tokenre: %v\n", err)
		os.Exit(1)
	}
	if err := os.Rename(tmp, dst); err != nil {
		fmt.Fprintf(os.Stderr, "translate/tokenre: %v\n", err)
		os.Exit(1)
	}
	fmt.Printf("T4: wrote %s (pattern for the default delimiters: %s)\n", dst, pattern)
}

var stdRe = regexp.MustCompile(`(?s)def stdTokenReSrc : TokenReSrc :=\s*\{ format := \[([0-9,\s]*)\],\s*args := \[(.*?)\],\s*exclOver := (\d+),\s*exclItem := (.*?) \}`)

// diagnose compares the extracted structure with `stdTokenReSrc` of Liquid/TokenReSrc.lean, the structure
// the Lean theorems are proved for, and names the differences (diagnostics only: the check is the Lean
// theorem token_re_src_is_standard). Nothing is reported when that definition is not in the expected form.
func (t *tr) diagnose(modelFile string, res *result) {
	data, err := os.ReadFile(modelFile)
	if err != nil {
		return
	}
	m := stdRe.FindStringSubmatch(string(data))
	if m == nil {
		fmt.Println("T4: note: stdTokenReSrc of Liquid/TokenReSrc.lean is not in the expected form; no diagnostics")
		return
	}
	var fb []byte
	for _, f := range strings.FieldsFunc(m[1], func(r rune) bool { return r == ',' || r == ' ' || r == '\n' }) {
		n, err := strconv.Atoi(f)
		if err != nil || n < 0 || n > 255 {
			return
		}
		fb = append(fb, byte(n))
	}
	squash := func(s string) string { return strings.Join(strings.Fields(s), " ") }
	if string(fb) != res.format {
		i := 0
		for i < len(fb) && i < len(res.format) && fb[i] == res.format[i] {
			i++
		}
		t.brk(token.NoPos, "formTokenMatcher: the format string of fmt.Sprintf is %q; the model (stdTokenReSrc) was written for %q; first difference at byte %d", res.format, string(fb), i)
	}
	args := make([]string, len(res.args))
	for i, a := range res.args {
		args[i] = a.lean()
	}
	if got := strings.Join(args, ", "); got != squash(m[2]) {
		t.brk(token.NoPos, "formTokenMatcher: the arguments of fmt.Sprintf are [%s]; the model (stdTokenReSrc) has [%s]", got, squash(m[2]))
	}
	if got := strconv.Itoa(res.exclOver); got != m[3] {
		t.brk(token.NoPos, "formTokenMatcher: the loop ranges over delims[%s]; the model (stdTokenReSrc) has delims[%s]", got, m[3])
	}
	if got := res.exclItem.lean(); got != squash(m[4]) {
		t.brk(token.NoPos, "formTokenMatcher: the loop appends %s; the model (stdTokenReSrc) has %s", got, squash(m[4]))
	}
}

func commentSafe(s string) string {
	return strings.ReplaceAll(strings.ReplaceAll(s, "-/", "- /"), "/-", "/ -")
}

// strExprQuiet is strExpr without a BROKEN line when the expression is outside the vocabulary.
func (t *tr) strExprQuiet(e ast.Expr) *expr {
	n := len(t.broken)
	x := t.strExpr(e)
	if x == nil {
		t.broken = t.broken[:n]
	}
	return x
}

// canonVerbs rewrites the verb %v to %s (outside %%).
func canonVerbs(f string) string {
	var sb strings.Builder
	for i := 0; i < len(f); i++ {
		if f[i] == '%' && i+1 < len(f) {
			if f[i+1] == 'v' {
				sb.WriteString("%s")
				i++
				continue
			}
			sb.WriteByte(f[i])
			sb.WriteByte(f[i+1])
			i++
			continue
		}
		sb.WriteByte(f[i])
	}
	return sb.String()
}
