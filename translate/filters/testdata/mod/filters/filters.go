// Package filters is the test input of translator T2: one registration per rule.
package filters

import (
	"strings"
	"time"
)

type FilterDictionary interface {
	AddFilter(string, any)
}

var flag = true

func AddStandardFilters(fd FilterDictionary) {
	fd.AddFilter("lit", func(s string, n int, f float64, b bool, a any, l []any, t time.Time) string { return s })
	fd.AddFilter("deflt", func(s string, n func(int) int, e func(string) string) (string, error) { return s, nil })
	fd.AddFilter("imported", strings.TrimSpace)
	fd.AddFilter("named", named)
	const k = "const" + "name"
	fd.AddFilter(k, named)
	more(fd)
	var dyn any = named
	fd.AddFilter("dynamic", dyn)
	fd.AddFilter("variadic", func(s string, r ...string) string { return s })
	fd.AddFilter("int64", func(s string, n int64) string { return s })
	fd.AddFilter("mixedfn", func(s string, f func(int) string) string { return s })
	fd.AddFilter("noterror", func(s string) (string, any) { return s, nil })
	fd.AddFilter("three", func(s string) (string, int, error) { return s, 0, nil })
	if flag {
		fd.AddFilter("conditional", named)
	}
	fd.AddFilter("lit", named)
	other := fd
	_ = other
}

func named(a []any, key any) any { return a }

func more(d FilterDictionary) {
	d.AddFilter("helper", func(a any) any { return a })
}
