module example.com/t2

go 1.21
