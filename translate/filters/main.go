// Command filters is translator T2 (DESIGN 5.4): the filter registry.
//
// It type-checks the package `filters` of the repository (go/packages + go/types, nothing is
// executed), walks the body of `AddStandardFilters` and of every function of the package that
// it hands its dictionary to, and extracts for every `fd.AddFilter("name", fn)` call the Go
// signature of `fn` (function literal, package function or imported function alike: the type
// go/types assigns to the argument expression). It writes Liquid/Generated/Filters.lean:
//
//	def generatedFilterSigs : List FilterSig        -- vocabulary of Liquid/Call.lean
//
// one entry per registration, in source order. The obligation `filter_sigs_are_standard`
// (Proofs/FilterSigs.lean, by `decide`) says that this table and the table `stdFilters` the
// model's call layer uses define the same registry.
//
//	go run . -repo /repo -out ../../lean/Liquid/Generated
//
// What is not expressible in the model's vocabulary is never guessed: the entry is left out of the
// table (so that the Lean obligation fails as well) and a line
//
//	OBLIGATION filter_sigs_are_standard BROKEN <fact>
//
// is printed for the orchestrator. This happens for: an argument that is not of function type, a
// name that is not a constant string, a registration under control flow (if/for/switch/closure/
// defer/go), a parameter type other than string, int, float64, bool, any, []any, time.Time or a
// default-function func(T) T over these, a variadic function, a result list that is not `T` or
// `(T, error)`, a name registered twice (in Go the last registration wins, in a list the first),
// the dictionary escaping into something other than a package function. For diagnostics only, the
// translator also reads the `stdFilters` table of Liquid/Call.lean (next to -out) and names the
// filters whose extracted signature differs from it; the check itself is the Lean theorem.
//
// Exit status 1 (a translator failure, reported for every property) only when the package cannot be
// loaded or `AddStandardFilters` does not exist.
package main

import (
	"flag"
	"fmt"
	"go/ast"
	"go/constant"
	"go/token"
	"go/types"
	"os"
	"path/filepath"
	"regexp"
	"sort"
	"strconv"
	"strings"

	"golang.org/x/tools/go/packages"
)

const obligation = "filter_sigs_are_standard"

// sig is one registration in the vocabulary of Liquid/Call.lean.
type sig struct {
	name   string
	params []string // "val str", "fn int", …
	hasErr bool
	goSig  string // Go signature, for the comment
}

func (s sig) lean() string {
	ps := make([]string, len(s.params))
	for i, p := range s.params {
		f := strings.Fields(p)
		ps[i] = "." + f[0] + " ." + f[1]
	}
	return fmt.Sprintf("⟨%s, [%s], %v⟩", leanBytes(s.name), strings.Join(ps, ", "), s.hasErr)
}

func (s sig) short() string {
	e := ""
	if s.hasErr {
		e = " +error"
	}
	return "[" + strings.Join(s.params, ", ") + "]" + e
}

func leanBytes(s string) string {
	parts := make([]string, len(s))
	for i := 0; i < len(s); i++ {
		parts[i] = strconv.Itoa(int(s[i]))
	}
	return "[" + strings.Join(parts, ", ") + "]"
}

var broken []string

func brk(format string, a ...any) {
	msg := strings.Join(strings.Fields(fmt.Sprintf(format, a...)), " ")
	broken = append(broken, msg)
}

func fatal(format string, a ...any) {
	msg := fmt.Sprintf(format, a...)
	fmt.Fprintf(os.Stderr, "translate/filters: FAILED: %s\n", msg)
	fmt.Printf("OBLIGATION %s BROKEN translator T2 could not read the registry: %s\n", obligation, strings.Join(strings.Fields(msg), " "))
	os.Exit(1)
}

// paramTy maps a Go type to the model's ParamTy name ("" = not in the vocabulary).
func paramTy(t types.Type) string {
	switch u := t.(type) {
	case *types.Basic:
		switch u.Kind() {
		case types.String:
			return "str"
		case types.Int:
			return "int"
		case types.Float64:
			return "f64"
		case types.Bool:
			return "bool"
		}
	case *types.Alias:
		return paramTy(types.Unalias(t))
	case *types.Interface:
		if u.NumMethods() == 0 && u.NumEmbeddeds() == 0 {
			return "any"
		}
	case *types.Slice:
		if paramTy(u.Elem()) == "any" {
			return "anys"
		}
	case *types.Named:
		if o := u.Obj(); o != nil && o.Pkg() != nil && o.Pkg().Path() == "time" && o.Name() == "Time" {
			return "time"
		}
	}
	return ""
}

func isErrorType(t types.Type) bool {
	n, ok := t.(*types.Named)
	return ok && n.Obj().Pkg() == nil && n.Obj().Name() == "error"
}

// sigString prints a signature without parameter names (renaming a parameter must not change the
// generated file).
func sigString(s *types.Signature, qf types.Qualifier) string {
	tuple := func(t *types.Tuple, variadic bool) []string {
		out := make([]string, t.Len())
		for i := range out {
			out[i] = types.TypeString(t.At(i).Type(), qf)
			if variadic && i == t.Len()-1 {
				if sl, ok := t.At(i).Type().(*types.Slice); ok {
					out[i] = "..." + types.TypeString(sl.Elem(), qf)
				}
			}
			if fn, ok := t.At(i).Type().(*types.Signature); ok {
				out[i] = sigString(fn, qf)
			}
		}
		return out
	}
	res := tuple(s.Results(), false)
	r := strings.Join(res, ", ")
	if len(res) > 1 {
		r = "(" + r + ")"
	}
	if r != "" {
		r = " " + r
	}
	return "func(" + strings.Join(tuple(s.Params(), s.Variadic()), ", ") + ")" + r
}

// translate turns a Go signature into a model signature, or explains why it cannot.
func translate(name string, s *types.Signature, qf types.Qualifier) (sig, string) {
	out := sig{name: name, goSig: sigString(s, qf)}
	if s.Variadic() {
		return out, "is variadic (values.Call spreads the arguments; the model's call layer has no variadic parameters)"
	}
	if s.Params().Len() == 0 {
		return out, "has no parameter (AddFilter panics)"
	}
	for i := 0; i < s.Params().Len(); i++ {
		pt := s.Params().At(i).Type()
		if fn, ok := pt.Underlying().(*types.Signature); ok {
			// values.isDefaultFunctionType: a func with one input and one output
			if fn.Params().Len() == 1 && fn.Results().Len() == 1 && !fn.Variadic() {
				in, res := paramTy(fn.Params().At(0).Type()), paramTy(fn.Results().At(0).Type())
				if in != "" && in == res {
					out.params = append(out.params, "fn "+res)
					continue
				}
			}
			return out, fmt.Sprintf("parameter %d has function type %s, which is not a default-function func(T) T over the model's types", i, types.TypeString(pt, qf))
		}
		ty := paramTy(pt)
		if ty == "" {
			return out, fmt.Sprintf("parameter %d has Go type %s, which is not in the model's vocabulary (string, int, float64, bool, any, []any, time.Time)", i, types.TypeString(pt, qf))
		}
		out.params = append(out.params, "val "+ty)
	}
	switch s.Results().Len() {
	case 1:
	case 2:
		if !isErrorType(s.Results().At(1).Type()) {
			return out, fmt.Sprintf("second result has type %s, not error", types.TypeString(s.Results().At(1).Type(), qf))
		}
		out.hasErr = true
	default:
		return out, fmt.Sprintf("has %d results (AddFilter panics unless there are one or two)", s.Results().Len())
	}
	return out, ""
}

type walker struct {
	pkg     *packages.Package
	decls   map[*types.Func]*ast.FuncDecl
	visited map[*types.Func]bool
	sigs    []sig
	qf      types.Qualifier
}

func (w *walker) pos(p token.Pos) string {
	ps := w.pkg.Fset.Position(p)
	return fmt.Sprintf("%s:%d", filepath.Base(ps.Filename), ps.Line)
}

// walkFunc visits the body of fn, whose parameter number dictParam holds the filter dictionary.
func (w *walker) walkFunc(fn *types.Func, dictParam int) {
	if w.visited[fn] {
		return
	}
	w.visited[fn] = true
	fd := w.decls[fn]
	if fd == nil || fd.Body == nil {
		brk("the filter dictionary is passed to %s, whose body is not in package filters", fn.FullName())
		return
	}
	sg := fn.Type().(*types.Signature)
	dict := sg.Params().At(dictParam)
	w.walkStmts(fd.Body.List, dict, fn.Name(), false)
}

func (w *walker) walkStmts(list []ast.Stmt, dict *types.Var, where string, nested bool) {
	for _, st := range list {
		w.walkStmt(st, dict, where, nested)
	}
}

// usesDict reports whether the expression mentions the dictionary variable.
func (w *walker) usesDict(n ast.Node, dict *types.Var) bool {
	found := false
	ast.Inspect(n, func(x ast.Node) bool {
		if id, ok := x.(*ast.Ident); ok && w.pkg.TypesInfo.Uses[id] == dict {
			found = true
		}
		return !found
	})
	return found
}

func (w *walker) walkStmt(st ast.Stmt, dict *types.Var, where string, nested bool) {
	if es, ok := st.(*ast.ExprStmt); ok {
		if call, ok := es.X.(*ast.CallExpr); ok && w.dictCall(call, dict, where, nested) {
			return
		}
	}
	// any other statement: fine as long as the dictionary does not occur in it; if it does, look
	// inside (block statements) and flag registrations under control flow
	if !w.usesDict(st, dict) {
		return
	}
	switch s := st.(type) {
	case *ast.BlockStmt:
		w.walkStmts(s.List, dict, where, nested)
	case *ast.IfStmt:
		w.checkNoDict(s.Init, dict, where)
		w.checkNoDict(s.Cond, dict, where)
		w.walkStmts(s.Body.List, dict, where, true)
		if s.Else != nil {
			w.walkStmt(s.Else, dict, where, true)
		}
	case *ast.ForStmt:
		w.checkNoDict(s.Init, dict, where)
		w.checkNoDict(s.Cond, dict, where)
		w.checkNoDict(s.Post, dict, where)
		w.walkStmts(s.Body.List, dict, where, true)
	case *ast.RangeStmt:
		w.checkNoDict(s.X, dict, where)
		w.walkStmts(s.Body.List, dict, where, true)
	default:
		brk("%s: the filter dictionary is used at %s in a statement the translator does not follow (%T)", where, w.pos(st.Pos()), st)
	}
}

func (w *walker) checkNoDict(n ast.Node, dict *types.Var, where string) {
	if n == nil {
		return
	}
	if w.usesDict(n, dict) {
		brk("%s: the filter dictionary is used at %s in an expression the translator does not follow", where, w.pos(n.Pos()))
	}
}

// dictCall handles `dict.AddFilter(name, fn)` and `helper(…, dict, …)`; false = not such a call.
func (w *walker) dictCall(call *ast.CallExpr, dict *types.Var, where string, nested bool) bool {
	info := w.pkg.TypesInfo
	if sel, ok := call.Fun.(*ast.SelectorExpr); ok {
		if id, ok := sel.X.(*ast.Ident); ok && info.Uses[id] == dict {
			if sel.Sel.Name != "AddFilter" || len(call.Args) != 2 {
				brk("%s: call of %s on the filter dictionary at %s is not AddFilter(name, fn)", where, sel.Sel.Name, w.pos(call.Pos()))
				return true
			}
			w.addFilter(call, dict, where, nested)
			return true
		}
	}
	// a call that passes the dictionary on
	at := -1
	for i, a := range call.Args {
		if id, ok := a.(*ast.Ident); ok && info.Uses[id] == dict {
			if at >= 0 {
				brk("%s: the filter dictionary is passed twice at %s", where, w.pos(call.Pos()))
				return true
			}
			at = i
		} else if w.usesDict(a, dict) {
			return false
		}
	}
	if at < 0 {
		return false
	}
	var callee *types.Func
	switch f := call.Fun.(type) {
	case *ast.Ident:
		callee, _ = info.Uses[f].(*types.Func)
	case *ast.SelectorExpr:
		callee, _ = info.Uses[f.Sel].(*types.Func)
	}
	if callee == nil || callee.Type().(*types.Signature).Recv() != nil || callee.Type().(*types.Signature).Variadic() {
		brk("%s: the filter dictionary is passed at %s to something that is not a plain function", where, w.pos(call.Pos()))
		return true
	}
	if nested {
		brk("%s: the filter dictionary is passed to %s under control flow at %s", where, callee.Name(), w.pos(call.Pos()))
		return true
	}
	w.walkFunc(callee, at)
	return true
}

func (w *walker) addFilter(call *ast.CallExpr, dict *types.Var, where string, nested bool) {
	info := w.pkg.TypesInfo
	tv, ok := info.Types[call.Args[0]]
	if !ok || tv.Value == nil || tv.Value.Kind() != constant.String {
		brk("%s: AddFilter at %s: the name is not a constant string", where, w.pos(call.Pos()))
		return
	}
	name := constant.StringVal(tv.Value)
	if nested {
		brk("filter %q is registered under control flow (%s, %s)", name, where, w.pos(call.Pos()))
		return
	}
	if w.usesDict(call.Args[1], dict) {
		brk("filter %q (%s): the function expression mentions the filter dictionary", name, w.pos(call.Pos()))
		return
	}
	t := info.TypeOf(call.Args[1])
	if t == nil {
		brk("filter %q (%s): the function argument has no type", name, w.pos(call.Pos()))
		return
	}
	s, ok := t.Underlying().(*types.Signature)
	if !ok {
		brk("filter %q (%s): the argument has type %s, not a function type, so its signature cannot be resolved statically", name, w.pos(call.Pos()), types.TypeString(t, w.qf))
		return
	}
	sg, why := translate(name, s, w.qf)
	if why != "" {
		brk("filter %q (%s): %s %s", name, w.pos(call.Pos()), sg.goSig, why)
		return
	}
	for _, old := range w.sigs {
		if old.name == name {
			brk("filter %q is registered twice (second time at %s); in Go the last registration wins", name, w.pos(call.Pos()))
		}
	}
	w.sigs = append(w.sigs, sg)
}

// modelTable reads `stdFilters` of Liquid/Call.lean (diagnostics only). ok=false when the block
// is not in the expected one-entry-per-line form.
func modelTable(callLean string) (map[string]sig, bool) {
	data, err := os.ReadFile(callLean)
	if err != nil {
		return nil, false
	}
	lines := strings.Split(string(data), "\n")
	start := -1
	for i, l := range lines {
		if strings.HasPrefix(l, "def stdFilters : List FilterSig := [") {
			start = i + 1
		}
	}
	if start < 0 {
		return nil, false
	}
	re := regexp.MustCompile(`^\s*sig "([^"\\]+)" \[([^\]]*)\]( true| false)?,?\s*(--.*)?$`)
	pre := regexp.MustCompile(`^(val|fn) (any|bool|int|f64|str|anys|time)$`)
	out := map[string]sig{}
	for _, l := range lines[start:] {
		t := strings.TrimSpace(l)
		if t == "]" {
			return out, true
		}
		if t == "" || strings.HasPrefix(t, "--") {
			continue
		}
		m := re.FindStringSubmatch(l)
		if m == nil {
			return nil, false
		}
		s := sig{name: m[1], hasErr: strings.TrimSpace(m[3]) == "true"}
		for _, p := range strings.Split(m[2], ",") {
			p = strings.TrimSpace(p)
			if !pre.MatchString(p) {
				return nil, false
			}
			s.params = append(s.params, p)
		}
		if _, dup := out[s.name]; dup {
			return nil, false
		}
		out[s.name] = s
	}
	return nil, false
}

// generate loads <repo>/filters and returns the text of Filters.lean and the number of registrations;
// the facts that break the obligation are left in `broken`. callLean: Liquid/Call.lean (diagnostics).
func generate(repo, callLean string) (content string, n int, err error) {
	broken = nil
	env := []string{}
	for _, kv := range os.Environ() {
		if !strings.HasPrefix(kv, "GOFLAGS=") {
			env = append(env, kv)
		}
	}
	// -mod=readonly: loading must never rewrite the go.mod/go.sum of the repository
	env = append(env, "GOFLAGS=-mod=readonly", "GOPROXY=off", "GOSUMDB=off", "GOTOOLCHAIN=local")
	cfg := &packages.Config{
		Mode: packages.NeedName | packages.NeedFiles | packages.NeedCompiledGoFiles | packages.NeedImports |
			packages.NeedDeps | packages.NeedTypes | packages.NeedSyntax | packages.NeedTypesInfo,
		Dir: repo, Env: env, Tests: false,
	}
	pkgs, err := packages.Load(cfg, "./filters")
	if err != nil {
		return "", 0, fmt.Errorf("go/packages could not load %s/filters: %v", repo, err)
	}
	if len(pkgs) != 1 {
		return "", 0, fmt.Errorf("expected one package for ./filters in %s, got %d", repo, len(pkgs))
	}
	pkg := pkgs[0]
	if len(pkg.Errors) > 0 {
		return "", 0, fmt.Errorf("package filters has errors: %v", pkg.Errors[0])
	}
	w := &walker{pkg: pkg, decls: map[*types.Func]*ast.FuncDecl{}, visited: map[*types.Func]bool{},
		qf: func(p *types.Package) string {
			if p == pkg.Types {
				return ""
			}
			return p.Name()
		}}
	var root *types.Func
	for _, f := range pkg.Syntax {
		for _, d := range f.Decls {
			fd, ok := d.(*ast.FuncDecl)
			if !ok {
				continue
			}
			obj, _ := pkg.TypesInfo.Defs[fd.Name].(*types.Func)
			if obj == nil {
				continue
			}
			w.decls[obj] = fd
			if fd.Recv == nil && fd.Name.Name == "AddStandardFilters" {
				root = obj
			}
		}
	}
	if root == nil {
		return "", 0, fmt.Errorf("func AddStandardFilters not found in %s/filters", repo)
	}
	if root.Type().(*types.Signature).Params().Len() != 1 {
		return "", 0, fmt.Errorf("AddStandardFilters: expected exactly one parameter (the filter dictionary)")
	}
	w.walkFunc(root, 0)
	if len(w.sigs) == 0 {
		brk("no AddFilter registration found in AddStandardFilters")
	}

	// diagnostics against the model's table
	if model, ok := modelTable(callLean); ok {
		seen := map[string]bool{}
		for _, s := range w.sigs {
			if seen[s.name] {
				continue
			}
			seen[s.name] = true
			m, in := model[s.name]
			switch {
			case !in:
				brk("filter %q is registered by the source with %s = %s but is absent from the model table stdFilters", s.name, s.goSig, s.short())
			case m.short() != s.short():
				brk("filter %q: the source registers %s = %s, the model table stdFilters has %s", s.name, s.goSig, s.short(), m.short())
			}
		}
		var names []string
		for name := range model {
			names = append(names, name)
		}
		sort.Strings(names)
		for _, name := range names {
			if !seen[name] {
				unresolved := false
				for _, b := range broken {
					if strings.Contains(b, fmt.Sprintf("filter %q", name)) {
						unresolved = true
					}
				}
				if !unresolved {
					brk("filter %q of the model table stdFilters (%s) is not registered by AddStandardFilters", name, model[name].short())
				}
			}
		}
	} else {
		fmt.Println("T2: note: stdFilters of Liquid/Call.lean is not in one-entry-per-line form; no per-filter diagnostics")
	}

	var sb strings.Builder
	sb.WriteString("import Liquid.Call\n")
	sb.WriteString("/-! GENERATED by translate/filters (translator T2) from the package `filters` of the repository: one entry per\n")
	sb.WriteString("`AddFilter(name, fn)` reachable from `AddStandardFilters`, in source order, with the signature go/types\n")
	sb.WriteString("assigns to `fn`. Do not edit. -/\n\n")
	sb.WriteString("def generatedFilterSigs : List FilterSig :=\n  [")
	for i, s := range w.sigs {
		if i > 0 {
			sb.WriteString("\n   ")
		}
		sep := ","
		if i == len(w.sigs)-1 {
			sep = " "
		}
		fmt.Fprintf(&sb, "%s%s   -- %s: %s", s.lean(), sep, s.name, s.goSig)
	}
	sb.WriteString("\n  ]\n")
	if len(broken) > 0 {
		sb.WriteString("\n/- not translated / differing (reported as OBLIGATION " + obligation + " BROKEN):\n")
		for _, b := range broken {
			sb.WriteString("   " + strings.ReplaceAll(b, "-/", "- /") + "\n")
		}
		sb.WriteString("-/\n")
	}
	return sb.String(), len(w.sigs), nil
}

func main() {
	repo := flag.String("repo", "/repo", "repository root")
	out := flag.String("out", "", "output directory (…/lean/Liquid/Generated)")
	flag.Parse()
	if *out == "" {
		fatal("-out is required")
	}
	abs, err := filepath.Abs(*repo)
	if err != nil {
		fatal("%v", err)
	}
	content, n, err := generate(abs, filepath.Join(*out, "..", "Call.lean"))
	if err != nil {
		fatal("%v", err)
	}
	for _, b := range broken {
		fmt.Printf("OBLIGATION %s BROKEN %s\n", obligation, b)
	}
	if err := os.MkdirAll(*out, 0o755); err != nil {
		fatal("%v", err)
	}
	dst := filepath.Join(*out, "Filters.lean")
	if old, err := os.ReadFile(dst); err == nil && string(old) == content {
		fmt.Printf("T2: %s unchanged (%d filters)\n", dst, n)
		return
	}
	tmp := dst + ".tmp"
	if err := os.WriteFile(tmp, []byte(content), 0o644); err != nil {
		fatal("%v", err)
	}
	if err := os.Rename(tmp, dst); err != nil {
		fatal("%v", err)
	}
	fmt.Printf("T2: wrote %s (%d filters)\n", dst, n)
}
