package main

import (
	"os"
	"path/filepath"
	"strings"
	"testing"
)

// every rule of T2 on a package that has one registration per rule
func TestRules(t *testing.T) {
	dir, err := os.Getwd()
	if err != nil {
		t.Fatal(err)
	}
	content, n, err := generate(filepath.Join(dir, "testdata", "mod"), filepath.Join(dir, "no-such-file"))
	if err != nil {
		t.Fatal(err)
	}
	wantEntries := []string{
		"[.val .str, .val .int, .val .f64, .val .bool, .val .any, .val .anys, .val .time], false⟩,   -- lit: func(string, int, float64, bool, any, []any, time.Time) string",
		"[.val .str, .fn .int, .fn .str], true⟩,   -- deflt: func(string, func(int) int, func(string) string) (string, error)",
		"[.val .str], false⟩,   -- imported: func(string) string",
		"[.val .anys, .val .any], false⟩,   -- named: func([]any, any) any",
		"-- constname: func([]any, any) any",
		"[.val .any], false⟩,   -- helper: func(any) any",
	}
	for _, w := range wantEntries {
		if !strings.Contains(content, w) {
			t.Errorf("missing entry %q in\n%s", w, content)
		}
	}
	if n != 7 { // the six above and the second "lit"
		t.Errorf("got %d entries, want 7", n)
	}
	wantBroken := []string{
		`filter "dynamic"`, "not a function type",
		`filter "variadic"`, "is variadic",
		`filter "int64"`, "Go type int64",
		`filter "mixedfn"`, "not a default-function",
		`filter "noterror"`, "not error",
		`filter "three"`, "has 3 results",
		`filter "conditional" is registered under control flow`,
		`filter "lit" is registered twice`,
		"a statement the translator does not follow",
	}
	all := strings.Join(broken, "\n")
	for _, w := range wantBroken {
		if !strings.Contains(all, w) {
			t.Errorf("missing broken fact %q in\n%s", w, all)
		}
	}
	for _, name := range []string{"dynamic", "variadic", "int64", "mixedfn", "noterror", "three", "conditional"} {
		if strings.Contains(content, "-- "+name+":") {
			t.Errorf("%s must not be in the table", name)
		}
	}
}

func TestLoadFailureIsAnError(t *testing.T) {
	if _, _, err := generate(t.TempDir(), ""); err == nil {
		t.Fatal("loading an empty directory must fail")
	}
}

// the model table is read for diagnostics only when it is in one-entry-per-line form
func TestModelTable(t *testing.T) {
	f := filepath.Join(t.TempDir(), "Call.lean")
	os.WriteFile(f, []byte("def stdFilters : List FilterSig := [\n  -- c\n  sig \"a\" [val str, fn int] true,\n  sig \"b\" [val any]\n]\n"), 0o644)
	m, ok := modelTable(f)
	if !ok || len(m) != 2 || m["a"].short() != "[val str, fn int] +error" || m["b"].short() != "[val any]" {
		t.Errorf("got %v %v", m, ok)
	}
	os.WriteFile(f, []byte("def stdFilters : List FilterSig := [\n  sig \"a\" [val str,\n fn int] true\n]\n"), 0o644)
	if _, ok := modelTable(f); ok {
		t.Error("a table in another layout must not be read")
	}
}
