package main

var flagV bool

func main() { flagV = true }
