module example.com/mod

go 1.23
