// Package lib holds one function per classification rule of translator T3.
package lib

import (
	"sort"
	"sync"
)

var counter int
var table = map[string]int{"a": 1}

func init() { counter = 1 }

// GlobalWrite: store to a package-level variable outside init.
func GlobalWrite() { counter++ }

// GlobalMap: map update through a package-level variable outside init.
func GlobalMap() { table["b"] = 2 }

// Returned: the closure is returned and writes a variable of its creator.
func Returned() func() int {
	n := 0
	return func() int { n++; return n }
}

// Deferred: only deferred; cannot outlive the call.
func Deferred() (err error) {
	defer func() { err = nil }()
	return nil
}

// LocalHelper: called directly through a local variable.
func LocalHelper() int {
	n := 0
	push := func() { n++ }
	push()
	push()
	return n
}

// Sorted: handed to sort.Slice.
func Sorted(xs []int) int {
	calls := 0
	sort.Slice(xs, func(i, j int) bool { calls++; return xs[i] < xs[j] })
	return calls
}

type holder struct{ f func() }

// InField: stored in a struct field.
func InField() *holder {
	n := 0
	return &holder{f: func() { n++ }}
}

// Spawned: run by a go statement.
func Spawned() {
	n := 0
	go func() { n++ }()
}

type lazy struct {
	once sync.Once
	v    int
}

// Once: handed to sync.Once.Do.
func (l *lazy) Once() int {
	l.once.Do(func() { l.v = 1 })
	return l.v
}

func apply(f func()) { f() }

func keep(f func()) { saved = f }

var saved func()

// ViaLocalCall: passed to a library function that only calls it.
func ViaLocalCall() int {
	n := 0
	apply(func() { n++ })
	return n
}

// ViaKeeper: passed to a library function that stores it in a global.
func ViaKeeper() {
	n := 0
	keep(func() { n++ })
}

// Nested: the inner closure is called directly, but by a closure that is returned, and the
// variable belongs to the outermost frame.
func Nested() func() {
	n := 0
	return func() {
		inner := func() { n++ }
		inner()
	}
}

// NestedLocal: as Nested, but the variable belongs to the returned closure's own frame.
func NestedLocal() func() int {
	return func() int {
		m := 0
		inner := func() { m++ }
		inner()
		return m
	}
}

// Slice: append into a captured slice from a returned closure.
func Slice() func(int) {
	var xs []int
	return func(i int) { xs = append(xs, i) }
}
