package main

import (
	"testing"
	"unicode"
)

// a synthetic mapping with every shape the encoder knows: a plain run, an alternating block, a single rune inside the
// gaps of an alternating block's neighbourhood, the digraph pattern (deltas -1, -2 on neighbours) and a rune mapped far away
func synthetic(r rune) rune {
	switch {
	case 'a' <= r && r <= 'z':
		return r - 32
	case 0x101 <= r && r <= 0x12F && r%2 == 1:
		return r - 1
	case r == 0x131:
		return 'I'
	case r == 0x1C5, r == 0x1C8:
		return r - 1
	case r == 0x1C6, r == 0x1C9:
		return r - 2
	case r == 0x10FFFF:
		return 0x10000
	}
	return r
}

func TestEncodeSynthetic(t *testing.T) {
	tbl := encode(synthetic)
	want := []crange{
		{'a', 'z', false, -32}, {0x101, 0x12F, true, -1}, {0x131, 0x131, false, 'I' - 0x131},
		{0x1C5, 0x1C5, false, -1}, {0x1C6, 0x1C6, false, -2}, {0x1C8, 0x1C8, false, -1}, {0x1C9, 0x1C9, false, -2},
		{0x10FFFF, 0x10FFFF, false, 0x10000 - 0x10FFFF},
	}
	if len(tbl) != len(want) {
		t.Fatalf("got %v want %v", tbl, want)
	}
	for i := range want {
		if tbl[i] != want[i] {
			t.Errorf("entry %d: got %+v want %+v", i, tbl[i], want[i])
		}
	}
	for r := rune(0); r <= maxRune; r++ {
		if decode(tbl, r) != synthetic(r) {
			t.Fatalf("decode differs at U+%04X", r)
		}
	}
}

// the tables of the toolchain: decoded they are the functions, ranges are disjoint as intervals and ascending
func TestEncodeUnicode(t *testing.T) {
	for _, f := range []func(rune) rune{unicode.ToUpper, unicode.ToLower} {
		tbl := encode(f)
		for i, c := range tbl {
			if c.lo > c.hi || c.delta == 0 || (i > 0 && tbl[i-1].hi >= c.lo) || (c.alt && (c.hi-c.lo)%2 != 0) {
				t.Errorf("entry %d malformed: %+v", i, c)
			}
		}
		for r := rune(0); r <= maxRune; r++ {
			if decode(tbl, r) != f(r) {
				t.Fatalf("decode differs at U+%04X", r)
			}
		}
		if len(tbl) > 400 {
			t.Errorf("%d ranges: the encoding is not compact", len(tbl))
		}
	}
}
