// Command casetables is translator T6 (DESIGN 5.4): it writes Liquid/Generated/CaseTables.lean, the complete
// simple case mapping of the Go toolchain that builds the repository, as range tables.
//
// Unlike T1–T5 it reads no source of the repository: filters/standard_filters.go calls strings.ToUpper and
// strings.ToLower, whose rune mapping is unicode.ToUpper / unicode.ToLower of the *standard library* the
// engine is linked with. The table therefore mirrors the toolchain (`go` on PATH, the one `check` builds the
// harness and this translator with), not a file of /repo. It is computed by calling the two functions on
// every rune 0..0x10FFFF and run-length encoding the differences — Go's internal CaseRange format
// (unicode/tables.go, with its UpperLower marker) is not copied, so the table can be checked against the
// functions themselves: this program decodes what it is about to write and compares it with the functions on
// every rune again (a disagreement is exit 1), and the `strf` stream does the same through the real filters.
//
//	go run . -repo /repo -out ../../lean/Liquid/Generated
//
// A range is (lo, hi, alt, img): every rune r with lo ≤ r ≤ hi — when alt is set only those with r − lo even —
// maps to img + (r − lo), that is r + delta with delta = img − lo (written in the comment of each line; the Lean
// side computes in natural numbers only, which the kernel evaluates fast); a rune in no range maps to itself. Ranges are sorted and disjoint as intervals.
//
// Facts the Lean proofs rely on are checked here as well, so that the failing fact is named on standard output
// (`OBLIGATION case_tables_wellformed BROKEN …`); the check proper is the Lean obligation.
package main

import (
	"flag"
	"fmt"
	"os"
	"path/filepath"
	"runtime"
	"strings"
	"unicode"
)

const obligation = "case_tables_wellformed"
const maxRune = 0x10FFFF

type crange struct {
	lo, hi rune
	alt    bool
	delta  rune
}

func (c crange) hits(r rune) bool {
	return c.lo <= r && r <= c.hi && (!c.alt || (r-c.lo)%2 == 0)
}

// encode run-length encodes the non-identity points of f on 0..maxRune.
func encode(f func(rune) rune) []crange {
	type pt struct{ r, d rune }
	var pts []pt
	for r := rune(0); r <= maxRune; r++ {
		if d := f(r) - r; d != 0 {
			pts = append(pts, pt{r, d})
		}
	}
	run := func(i int, step rune) int { // number of points from i on with the same delta, `step` apart
		n := 1
		for i+n < len(pts) && pts[i+n].d == pts[i].d && pts[i+n].r == pts[i+n-1].r+step {
			n++
		}
		return n
	}
	var out []crange
	for i := 0; i < len(pts); {
		// a step-2 run ends at a point of another delta in between as well (consecutive points must be exactly 2
		// apart), so the ranges are disjoint as intervals
		n1, n2 := run(i, 1), run(i, 2)
		if n1 >= n2 {
			out = append(out, crange{pts[i].r, pts[i+n1-1].r, false, pts[i].d})
			i += n1
		} else {
			out = append(out, crange{pts[i].r, pts[i+n2-1].r, true, pts[i].d})
			i += n2
		}
	}
	return out
}

func decode(tbl []crange, r rune) rune {
	for _, c := range tbl {
		if c.hits(r) {
			return r + c.delta
		}
	}
	return r
}

func scalar(r rune) bool { return 0 <= r && r <= maxRune && !(0xD800 <= r && r <= 0xDFFF) }

func name(r rune) string {
	if r >= 0x20 && r != 0x7F && unicode.IsPrint(r) && !unicode.Is(unicode.Mn, r) && !unicode.Is(unicode.Me, r) {
		return string(r)
	}
	return "·"
}

func (c crange) lean() string {
	alt := "false"
	if c.alt {
		alt = "true "
	}
	img := fmt.Sprintf("%s→%s", name(c.lo), name(c.lo+c.delta))
	if c.hi != c.lo {
		img += fmt.Sprintf(" … %s→%s", name(c.hi), name(c.hi+c.delta))
	}
	return fmt.Sprintf("%-40s -- %+-7d %s", fmt.Sprintf("⟨0x%04X, 0x%04X, %s, 0x%04X⟩,", c.lo, c.hi, alt, c.lo+c.delta), c.delta, strings.ReplaceAll(img, "-/", "- /"))
}

func table(sb *strings.Builder, nm, doc string, tbl []crange) {
	fmt.Fprintf(sb, "/-- %s -/\ndef %s : List CaseRange := [\n", doc, nm)
	for i, c := range tbl {
		s := c.lean()
		if i == len(tbl)-1 {
			s = strings.Replace(s, "⟩,", "⟩ ", 1)
		}
		sb.WriteString("  " + s + "\n")
	}
	sb.WriteString("]\n\n")
}

func main() {
	flag.String("repo", "/repo", "repository root (not read: the table is the toolchain's)")
	out := flag.String("out", "", "output directory (…/lean/Liquid/Generated)")
	flag.Parse()
	if *out == "" {
		fmt.Fprintln(os.Stderr, "translate/casetables: -out is required")
		os.Exit(1)
	}
	upper, lower := encode(unicode.ToUpper), encode(unicode.ToLower)

	// self-check: the table, decoded, is the function (every rune)
	nUp, nLo := 0, 0
	for r := rune(0); r <= maxRune; r++ {
		u, l := unicode.ToUpper(r), unicode.ToLower(r)
		if decode(upper, r) != u || decode(lower, r) != l {
			fmt.Fprintf(os.Stderr, "translate/casetables: FAILED: the encoded table disagrees with unicode.ToUpper/ToLower at U+%04X\n", r)
			fmt.Printf("OBLIGATION %s BROKEN translator T6 cannot encode the case mapping at U+%04X\n", obligation, r)
			os.Exit(1)
		}
		if u != r {
			nUp++
		}
		if l != r {
			nLo++
		}
	}
	// the facts of the obligation, named when they fail
	var broken []string
	for _, t := range []struct {
		nm  string
		tbl []crange
		f   func(rune) rune
	}{{"upperRanges", upper, unicode.ToUpper}, {"lowerRanges", lower, unicode.ToLower}} {
		for i, c := range t.tbl {
			if c.lo > c.hi || c.delta == 0 || (c.alt && (c.hi-c.lo)%2 != 0) || (i > 0 && t.tbl[i-1].hi >= c.lo) {
				broken = append(broken, fmt.Sprintf("%s: entry %d (U+%04X..U+%04X) is empty, out of order or overlaps its predecessor", t.nm, i, c.lo, c.hi))
			}
			if !scalar(c.lo+c.delta) || !scalar(c.hi+c.delta) || (c.lo+c.delta < 0xD800 && c.hi+c.delta > 0xDFFF) {
				broken = append(broken, fmt.Sprintf("%s: the images of U+%04X..U+%04X are not all scalar values", t.nm, c.lo, c.hi))
			}
		}
		for r := rune(0); r <= maxRune; r++ {
			if x := t.f(r); t.f(x) != x {
				broken = append(broken, fmt.Sprintf("%s: the mapping is not idempotent at U+%04X -> U+%04X -> U+%04X", t.nm, r, x, t.f(x)))
			}
		}
	}
	// exceptional facts: upper-case runes that do not come back through ToLower
	var ulu []rune
	for r := rune(0); r <= maxRune; r++ {
		if unicode.ToUpper(r) == r && unicode.ToUpper(unicode.ToLower(r)) != r {
			ulu = append(ulu, r)
		}
	}
	for _, b := range broken {
		fmt.Printf("OBLIGATION %s BROKEN %s\n", obligation, b)
	}

	var sb strings.Builder
	sb.WriteString("import Liquid.CaseRange\n/-!\n")
	sb.WriteString("GENERATED by translate/casetables (translator T6, DESIGN 5.4) — do not edit; regenerated on every `./check` run.\n\n")
	fmt.Fprintf(&sb, "The complete simple case mapping `unicode.ToUpper` / `unicode.ToLower` of the Go standard library of the toolchain in use\n(%s, Unicode %s). This table mirrors the *standard library the repository is built with*, not a source file of the\nrepository under verification: `filters/standard_filters.go` calls `strings.ToUpper` / `strings.ToLower`, and this is what they\ndo to a rune in the real engine. Another toolchain may carry other tables; the file is then rewritten and the obligation\n`case_tables_wellformed` (`Proofs/CaseTables.lean`) and the theorems over it are re-checked.\n\n", runtime.Version(), unicode.Version)
	sb.WriteString("Computed by calling the two functions on every rune U+0000..U+10FFFF and run-length encoding the differences (Go's own\ntable format is not copied). `⟨lo, hi, alt, img⟩`: every rune `r` with `lo ≤ r ≤ hi` — when `alt` is set only every second one,\n`r − lo` even (the alternating upper/lower blocks) — maps to `img + (r − lo)`, i.e. `r + delta` with `delta = img − lo` (the signed\nnumber in each comment); a rune in no range maps to itself.\n")
	fmt.Fprintf(&sb, "%d ranges for the %d runes `ToUpper` moves, %d ranges for the %d runes `ToLower` moves.\n-/\n\n", len(upper), nUp, len(lower), nLo)
	fmt.Fprintf(&sb, "/-- `unicode.Version` of the toolchain -/\ndef caseTablesUnicodeVersion : String := %q\n\n", unicode.Version)
	table(&sb, "upperRanges", "`unicode.ToUpper`", upper)
	table(&sb, "lowerRanges", "`unicode.ToLower`", lower)
	sb.WriteString("/-- the exceptional facts: the runes `u` with `ToUpper u = u` and `ToUpper (ToLower u) ≠ u` (an upper-case letter whose\n    lower-case partner has another upper-case form); `upper_lower_upper` holds for every other rune -/\n")
	sb.WriteString("def upperLowerUpperExceptions : List Nat := [")
	for i, r := range ulu {
		if i > 0 {
			sb.WriteString(", ")
		}
		fmt.Fprintf(&sb, "0x%04X", r)
	}
	sb.WriteString("]\n")
	content := sb.String()

	if err := os.MkdirAll(*out, 0o755); err != nil {
		fmt.Fprintf(os.Stderr, "translate/casetables: %v\n", err)
		os.Exit(1)
	}
	dst := filepath.Join(*out, "CaseTables.lean")
	summary := fmt.Sprintf("Unicode %s, %s: %d upper + %d lower ranges, %d exceptions", unicode.Version, runtime.Version(), len(upper), len(lower), len(ulu))
	if old, err := os.ReadFile(dst); err == nil && string(old) == content {
		fmt.Printf("T6: %s unchanged (%s)\n", dst, summary)
		return
	}
	tmp := dst + ".tmp"
	if err := os.WriteFile(tmp, []byte(content), 0o644); err != nil {
		fmt.Fprintf(os.Stderr, "translate/casetables: %v\n", err)
		os.Exit(1)
	}
	if err := os.Rename(tmp, dst); err != nil {
		fmt.Fprintf(os.Stderr, "translate/casetables: %v\n", err)
		os.Exit(1)
	}
	fmt.Printf("T6: wrote %s (%s)\n", dst, summary)
}
