module veriftranslate/casetables

go 1.21
