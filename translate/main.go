// Command translate regenerates the Lean facts under lean/Liquid/Generated from the Go
// source of the repository under verification (DESIGN 5.3).
//
//	translate -repo DIR -out DIR [-only T3] [-v]
//
// Every translator is one entry of `translators` (one file per translator): it receives the
// loaded program and returns the text of one Generated/*.lean file. A file is rewritten only
// when its content changes, so that an unchanged repository does not trigger a Lean rebuild.
// Any failure to load or analyse the repository is fatal (non-zero exit and a message): a
// stale generated file must never be mistaken for a re-checked tie.
//
// Lines printed on stdout that start with "OBLIGATION " report, for the orchestrator, facts
// that break a proof obligation stated over a generated table (the Lean build is what
// actually fails; the line names the offending fact so that it reaches the replay file).
package main

import (
	"bytes"
	"flag"
	"fmt"
	"os"
	"path/filepath"
	"strings"
)

// A Translator produces one generated Lean file from the loaded repository.
type Translator struct {
	ID   string // T1, T2, T3 …
	File string // file name under -out
	What string
	Run  func(c *Ctx) (content string, err error)
}

// translators is the registry; T1 (grammar table) and T2 (filter registry) are added here
// as further entries, each in its own file.
var translators = []Translator{
	{ID: "T3", File: "Writes.lean", What: "stores to captured or package-level variables (go/ssa)", Run: genWrites},
	{ID: "T5", File: "MapIter.lean", What: "map iteration sites (go/ssa)", Run: genMapIter},
}

// Ctx is shared by the translators of one run; loading is done once, on demand.
type Ctx struct {
	Repo    string
	Out     string // output directory (lean/Liquid/Generated)
	Verbose bool
	prog    *Program // lazily loaded by (*Ctx).Program
	progErr error
}

func fatalf(format string, a ...any) {
	fmt.Fprintf(os.Stderr, "translate: FAILED: "+format+"\n", a...)
	fmt.Printf("translate: FAILED: "+format+"\n", a...)
	os.Exit(1)
}

func main() {
	repo := flag.String("repo", "/repo", "repository under verification")
	out := flag.String("out", "", "output directory (lean/Liquid/Generated)")
	only := flag.String("only", "", "comma-separated translator ids (default: all)")
	verbose := flag.Bool("v", false, "print every fact")
	flag.Parse()
	if *out == "" {
		fatalf("missing -out")
	}
	abs, err := filepath.Abs(*repo)
	if err != nil {
		fatalf("%v", err)
	}
	if st, err := os.Stat(filepath.Join(abs, "go.mod")); err != nil || st.IsDir() {
		fatalf("%s is not a Go module (no go.mod)", abs)
	}
	if err := os.MkdirAll(*out, 0o755); err != nil {
		fatalf("%v", err)
	}
	c := &Ctx{Repo: abs, Out: *out, Verbose: *verbose}
	want := map[string]bool{}
	for _, id := range strings.Split(*only, ",") {
		if id != "" {
			want[id] = true
		}
	}
	for _, t := range translators {
		if len(want) > 0 && !want[t.ID] {
			continue
		}
		content, err := t.Run(c)
		if err != nil {
			fatalf("%s (%s): %v", t.ID, t.What, err)
		}
		path := filepath.Join(*out, t.File)
		old, _ := os.ReadFile(path)
		if bytes.Equal(old, []byte(content)) {
			fmt.Printf("translate: %s %s unchanged\n", t.ID, t.File)
			continue
		}
		tmp := path + ".tmp"
		if err := os.WriteFile(tmp, []byte(content), 0o644); err != nil {
			fatalf("%v", err)
		}
		if err := os.Rename(tmp, path); err != nil {
			fatalf("%v", err)
		}
		fmt.Printf("translate: %s %s rewritten\n", t.ID, t.File)
	}
}

// leanString renders s as a Lean string literal.
func leanString(s string) string {
	var sb strings.Builder
	sb.WriteByte('"')
	for _, r := range s {
		switch {
		case r == '"' || r == '\\':
			sb.WriteByte('\\')
			sb.WriteRune(r)
		case r < 0x20 || r == 0x7f:
			fmt.Fprintf(&sb, "\\x%02x", r)
		default:
			sb.WriteRune(r)
		}
	}
	sb.WriteByte('"')
	return sb.String()
}
