package main

import (
	"fmt"
	"os"
	"sort"
	"strings"

	"golang.org/x/tools/go/packages"
	"golang.org/x/tools/go/ssa"
	"golang.org/x/tools/go/ssa/ssautil"
)

// Program is the repository loaded once: typed syntax (for T1/T2) and SSA (for T3).
type Program struct {
	Module string              // module path of the repository
	Pkgs   []*packages.Package // the library packages (non-test, cmd/ excluded), sorted by path
	SSA    *ssa.Program
	Lib    []*ssa.Package // SSA packages of Pkgs, same order
}

// Program loads (once) all non-test library packages of the repository and builds SSA.
func (c *Ctx) Program() (*Program, error) {
	if c.prog != nil || c.progErr != nil {
		return c.prog, c.progErr
	}
	c.prog, c.progErr = load(c.Repo)
	return c.prog, c.progErr
}

func load(repo string) (*Program, error) {
	env := []string{}
	for _, kv := range os.Environ() {
		if !strings.HasPrefix(kv, "GOFLAGS=") {
			env = append(env, kv)
		}
	}
	// -mod=readonly: loading must never rewrite the go.mod/go.sum of the repository.
	env = append(env, "GOFLAGS=-mod=readonly", "GOPROXY=off", "GOSUMDB=off", "GOTOOLCHAIN=local")
	cfg := &packages.Config{
		Mode: packages.NeedName | packages.NeedFiles | packages.NeedCompiledGoFiles | packages.NeedImports |
			packages.NeedDeps | packages.NeedTypes | packages.NeedTypesSizes | packages.NeedSyntax |
			packages.NeedTypesInfo | packages.NeedModule,
		Dir:   repo,
		Env:   env,
		Tests: false,
	}
	initial, err := packages.Load(cfg, "./...")
	if err != nil {
		return nil, fmt.Errorf("go/packages could not load %s: %v", repo, err)
	}
	if len(initial) == 0 {
		return nil, fmt.Errorf("no packages found in %s", repo)
	}
	var errs []string
	packages.Visit(initial, nil, func(p *packages.Package) {
		for _, e := range p.Errors {
			errs = append(errs, e.Error())
		}
	})
	if len(errs) > 0 {
		if len(errs) > 10 {
			errs = errs[:10]
		}
		return nil, fmt.Errorf("packages of %s have errors:\n  %s", repo, strings.Join(errs, "\n  "))
	}
	p := &Program{}
	for _, pkg := range initial {
		if pkg.Module != nil && pkg.Module.Main {
			p.Module = pkg.Module.Path
			break
		}
	}
	if p.Module == "" {
		return nil, fmt.Errorf("cannot determine the module path of %s", repo)
	}
	prog, all := ssautil.AllPackages(initial, ssa.InstantiateGenerics)
	prog.Build()
	for i, pkg := range initial {
		rel := strings.TrimPrefix(strings.TrimPrefix(pkg.PkgPath, p.Module), "/")
		if rel == "cmd" || strings.HasPrefix(rel, "cmd/") {
			continue // command-line programs are not part of the library
		}
		if all[i] == nil {
			return nil, fmt.Errorf("no SSA for package %s", pkg.PkgPath)
		}
		p.Pkgs = append(p.Pkgs, pkg)
		p.Lib = append(p.Lib, all[i])
	}
	if len(p.Lib) == 0 {
		return nil, fmt.Errorf("no library packages in %s", repo)
	}
	sort.Sort(byPath{p})
	p.SSA = prog
	return p, nil
}

type byPath struct{ p *Program }

func (b byPath) Len() int           { return len(b.p.Pkgs) }
func (b byPath) Less(i, j int) bool { return b.p.Pkgs[i].PkgPath < b.p.Pkgs[j].PkgPath }
func (b byPath) Swap(i, j int) {
	b.p.Pkgs[i], b.p.Pkgs[j] = b.p.Pkgs[j], b.p.Pkgs[i]
	b.p.Lib[i], b.p.Lib[j] = b.p.Lib[j], b.p.Lib[i]
}

// RelPkg is the package path relative to the module ("." for the root package).
func (p *Program) RelPkg(path string) string {
	rel := strings.TrimPrefix(strings.TrimPrefix(path, p.Module), "/")
	if rel == "" {
		return "."
	}
	return rel
}
