package main

import (
	"os"
	"regexp"
	"testing"
)

// The classification rules of T3 on a module that has one function per rule.
func TestWritesClassification(t *testing.T) {
	dir, err := os.Getwd()
	if err != nil {
		t.Fatal(err)
	}
	c := &Ctx{Repo: dir + "/testdata/mod"}
	out, err := genWrites(c)
	if err != nil {
		t.Fatal(err)
	}
	re := regexp.MustCompile(`fn := "([^"]*)", var := "([^"]*)", cls := \.(\w+), inInit := (\w+)`)
	got := map[string]string{}
	for _, m := range re.FindAllStringSubmatch(out, -1) {
		got[m[1]+" "+m[2]] = m[3] + " " + m[4]
	}
	want := map[string]string{
		"init#1 counter":      "global true",
		"init table":          "global true",
		"GlobalWrite counter": "global false",
		"GlobalMap table":     "global false",
		"keep saved":          "global false",
		"Returned$1 n":        "capturedEscaping false",
		"Deferred$1 err":      "capturedLocal false",
		"LocalHelper$1 n":     "capturedLocal false",
		"Sorted$1 calls":      "capturedLocal false",
		"InField$1 n":         "capturedEscaping false",
		"Spawned$1 n":         "capturedEscaping false",
		"(*lazy).Once$1 l":    "synchronised false",
		"ViaLocalCall$1 n":    "capturedLocal false",
		"ViaKeeper$1 n":       "capturedEscaping false",
		"Nested$1$1 n":        "capturedEscaping false",
		"NestedLocal$1$1 m":   "capturedLocal false",
		"Slice$1 xs":          "capturedEscaping false",
	}
	for k, w := range want {
		if got[k] != w {
			t.Errorf("%s: got %q, want %q", k, got[k], w)
		}
	}
	for k := range got {
		if _, ok := want[k]; !ok && k != "init init$guard" {
			t.Errorf("unexpected fact %s: %s", k, got[k])
		}
	}
}

func TestLoadFailureIsAnError(t *testing.T) {
	c := &Ctx{Repo: t.TempDir()}
	if _, err := genWrites(c); err == nil {
		t.Fatal("loading an empty directory must fail")
	}
}
