package main

// T3 (DESIGN 5.3): every store whose address is rooted in a captured variable (ssa.FreeVar)
// or a package-level variable (ssa.Global), in all non-test library packages.
//
// "Store" = ssa.Store (assignments, increments, `x = append(x, …)`), ssa.MapUpdate, and the
// mutating builtins delete/copy/clear/append (append may write into spare capacity).
// "Rooted" = following field/index address computations, loads, slicing, conversions, map
// lookups, type assertions and phis back from the written address reaches the variable:
// a write to the variable itself or to memory reached through its value.
//
// A captured-variable write is classified by what happens to the closure that performs it:
//
//	capturedLocal     the closure cannot outlive the call that created it (and the variable):
//	                  it is only called directly, deferred, or handed to a synchronous consumer
//	synchronised      as above, and the consumer is sync.Once.Do
//	capturedEscaping  the closure value flows to a return, a store (variable captured by another
//	                  escaping closure, struct field, slice or map element, global), a channel,
//	                  a `go` statement or an argument of a call that is not a known synchronous
//	                  consumer: the write can happen after the creating call has returned —
//	                  for a tag or filter compiler that is "at render time", from any goroutine
//	global            the root is a package-level variable (inInit tells whether the store is
//	                  in the package initialiser, an init function or a closure inside them)
//
// The escape test is flow-insensitive and over-approximates; it is not a pointer analysis
// (a write made by a callee through a pointer parameter is attributed to nobody — the race
// detector runs of the `conc` stream are the complement for those).

import (
	"fmt"
	"go/token"
	"go/types"
	"os"
	"path/filepath"
	"regexp"
	"sort"
	"strings"

	"golang.org/x/tools/go/ssa"
	"golang.org/x/tools/go/ssa/ssautil"
)

type writeFact struct {
	Pkg, Fn, Var, Cls string
	InInit            bool
	Pos               string // file:line relative to the repository (comment only)
	Kind              string // store | mapupdate | append | delete | copy | clear (comment only)
	Why               string // for escaping closures: where the closure value flows
}

// synchronousConsumers: functions that call their function-typed (or sort.Interface)
// argument only before they return.
var synchronousConsumers = map[string]bool{
	"(*sync.Once).Do": true,
	"sort.Slice":      true, "sort.SliceStable": true, "sort.SliceIsSorted": true, "sort.Search": true, "sort.Find": true,
	"sort.Sort": true, "sort.Stable": true, "sort.IsSorted": true,
	"strings.Map": true, "strings.FieldsFunc": true, "strings.IndexFunc": true, "strings.LastIndexFunc": true,
	"strings.TrimFunc": true, "strings.TrimLeftFunc": true, "strings.TrimRightFunc": true, "strings.ContainsFunc": true,
	"bytes.Map": true, "bytes.FieldsFunc": true, "bytes.IndexFunc": true, "bytes.LastIndexFunc": true,
	"bytes.TrimFunc": true, "bytes.TrimLeftFunc": true, "bytes.TrimRightFunc": true, "bytes.ContainsFunc": true,
	"slices.SortFunc": true, "slices.SortStableFunc": true, "slices.IndexFunc": true, "slices.ContainsFunc": true,
	"slices.BinarySearchFunc": true, "slices.DeleteFunc": true,
	"(*regexp.Regexp).ReplaceAllStringFunc": true, "(*regexp.Regexp).ReplaceAllFunc": true,
	"path/filepath.Walk": true, "path/filepath.WalkDir": true,
}

type writesAnalysis struct {
	p       *Program
	lib     map[*ssa.Package]bool
	closure map[*ssa.Function][]*ssa.MakeClosure // creation sites of every anonymous function
	once    map[*ssa.Function]bool               // closure is handed to sync.Once.Do
	memo    map[*ssa.Function]*escapeResult
}

type escapeResult struct {
	escapes bool
	why     string
}

func genWrites(c *Ctx) (string, error) {
	p, err := c.Program()
	if err != nil {
		return "", err
	}
	a := &writesAnalysis{p: p, lib: map[*ssa.Package]bool{}, closure: map[*ssa.Function][]*ssa.MakeClosure{},
		once: map[*ssa.Function]bool{}, memo: map[*ssa.Function]*escapeResult{}}
	for _, pkg := range p.Lib {
		a.lib[pkg] = true
	}
	fns, err := libFunctions(p)
	if err != nil {
		return "", err
	}
	for _, fn := range fns {
		for _, b := range fn.Blocks {
			for _, ins := range b.Instrs {
				if mc, ok := ins.(*ssa.MakeClosure); ok {
					f := mc.Fn.(*ssa.Function)
					a.closure[f] = append(a.closure[f], mc)
				}
			}
		}
	}
	var facts []writeFact
	nStores := 0
	for _, fn := range fns {
		for _, b := range fn.Blocks {
			for _, ins := range b.Instrs {
				// a call that hands a package-level variable (its address, or the pointer/map/slice it holds) to a
				// method or function that may write through it: sync.Map.Store, sync.Pool.Put, (*T).Set …
				for _, gc := range globalCalls(ins) {
					facts = append(facts, a.fact(fn, ins, gc.root, "call "+gc.callee))
				}
				target, kind := writeTarget(ins)
				if target == nil {
					continue
				}
				nStores++
				for _, r := range roots(target) {
					facts = append(facts, a.fact(fn, ins, r, kind))
				}
			}
		}
	}
	if nStores == 0 {
		return "", fmt.Errorf("no store instruction at all in %d functions: SSA was not built", len(fns))
	}

	// one table row per distinct (pkg, fn, var, cls, inInit); the comment keeps the first
	// position and the number of stores (the parser tables are filled by hundreds of
	// element stores in the package initialiser)
	nFacts := len(facts)
	{
		type key struct {
			a, b, c, d string
			e          bool
		}
		idx := map[key]int{}
		count := []int{}
		var uniq []writeFact
		for _, f := range facts {
			k := key{f.Pkg, f.Fn, f.Var, f.Cls, f.InInit}
			if i, ok := idx[k]; ok {
				count[i]++
				continue
			}
			idx[k] = len(uniq)
			uniq = append(uniq, f)
			count = append(count, 1)
		}
		for i := range uniq {
			if count[i] > 1 {
				uniq[i].Kind += fmt.Sprintf(" (+%d more stores in this function)", count[i]-1)
			}
		}
		facts = uniq
	}

	var sb strings.Builder
	sb.WriteString("import Liquid.ConcFacts\n")
	sb.WriteString("/-!\nGENERATED by translate/writes.go (translator T3, DESIGN 5.3) — do not edit; regenerated on every\n")
	sb.WriteString("`./check` run from the Go source of the repository under verification.\n\n")
	fmt.Fprintf(&sb, "Module %s: %d library packages, %d function bodies, %d store instructions examined;\n", p.Module, len(p.Lib), len(fns), nStores)
	fmt.Fprintf(&sb, "%d of them have an address rooted in a captured variable or a package-level variable; one row per\n", nFacts)
	sb.WriteString("distinct (package, function, variable, class, inInit).\n-/\n\n")
	sb.WriteString("def sharedWrites : List WriteFact := [\n")
	for i, f := range facts {
		sep := ","
		if i == len(facts)-1 {
			sep = ""
		}
		cmt := f.Pos + " " + f.Kind
		if f.Why != "" {
			cmt += "; closure " + f.Why
		}
		fmt.Fprintf(&sb, "  { pkg := %s, fn := %s, var := %s, cls := .%s, inInit := %v }%s  -- %s\n",
			leanString(f.Pkg), leanString(f.Fn), leanString(f.Var), f.Cls, f.InInit, sep, cmt)
	}
	sb.WriteString("]\n")

	counts := map[string]int{}
	for _, f := range facts {
		counts[f.Cls]++
		if c.Verbose {
			fmt.Printf("translate: T3 fact %s %s %s %s inInit=%v %s %s %s\n", f.Pkg, f.Fn, f.Var, f.Cls, f.InInit, f.Pos, f.Kind, f.Why)
		}
		if f.Cls == "globalCall" && !f.InInit && !auditedGlobalCall(c, f.Pkg, f.Var) {
			fmt.Printf("OBLIGATION global_calls_audited BROKEN pkg=%s fn=%s hands package-level variable %s to %s at %s: it may be written through (a cache, a pool, a registry) by whichever goroutine gets there\n",
				f.Pkg, f.Fn, f.Var, strings.TrimPrefix(f.Kind, "call "), f.Pos)
		}
		if f.Cls == "capturedEscaping" || (f.Cls == "global" && !f.InInit) {
			fmt.Printf("OBLIGATION no_shared_writes BROKEN pkg=%s fn=%s var=%s cls=%s inInit=%v at %s (%s%s)\n",
				f.Pkg, f.Fn, f.Var, f.Cls, f.InInit, f.Pos, f.Kind, map[bool]string{true: "; closure " + f.Why, false: ""}[f.Why != ""])
		}
	}
	fmt.Printf("translate: T3 %d functions, %d stores, %d rows: capturedLocal=%d capturedEscaping=%d synchronised=%d global=%d globalCall=%d\n",
		len(fns), nStores, len(facts), counts["capturedLocal"], counts["capturedEscaping"], counts["synchronised"], counts["global"], counts["globalCall"])
	return sb.String(), nil
}

// libFunctions lists every function body of the library packages (anonymous functions and methods of
// unexported types included), in a deterministic order.
func libFunctions(p *Program) ([]*ssa.Function, error) {
	lib := map[*ssa.Package]bool{}
	for _, pkg := range p.Lib {
		lib[pkg] = true
	}
	// all functions of the library packages, anonymous ones included
	// (AllFunctions is reachability-based; the explicit walk over members and method sets
	// makes sure that methods of unexported, otherwise unreferenced types are included)
	cand := map[*ssa.Function]bool{}
	var add func(fn *ssa.Function)
	add = func(fn *ssa.Function) {
		if fn == nil || cand[fn] {
			return
		}
		cand[fn] = true
		for _, an := range fn.AnonFuncs {
			add(an)
		}
	}
	for fn := range ssautil.AllFunctions(p.SSA) {
		add(fn)
	}
	for _, pkg := range p.Lib {
		for _, m := range pkg.Members {
			switch m := m.(type) {
			case *ssa.Function:
				add(m)
			case *ssa.Type:
				for _, t := range []types.Type{m.Type(), types.NewPointer(m.Type())} {
					ms := p.SSA.MethodSets.MethodSet(t)
					for i := 0; i < ms.Len(); i++ {
						add(p.SSA.MethodValue(ms.At(i)))
					}
				}
			}
		}
	}
	var fns []*ssa.Function
	for fn := range cand {
		if fn.Blocks == nil {
			continue
		}
		if pkg := outermost(fn).Pkg; pkg == nil || !lib[pkg] {
			continue
		}
		if fn.Synthetic != "" && fn.Synthetic != "package initializer" {
			continue // wrappers, thunks, bound-method closures: no source-level stores
		}
		fns = append(fns, fn)
	}
	if len(fns) == 0 {
		return nil, fmt.Errorf("no function bodies found in the library packages")
	}
	sort.Slice(fns, func(i, j int) bool {
		pi, pj := outermost(fns[i]).Pkg.Pkg.Path(), outermost(fns[j]).Pkg.Pkg.Path()
		if pi != pj {
			return pi < pj
		}
		if fns[i].String() != fns[j].String() {
			return fns[i].String() < fns[j].String()
		}
		return fns[i].Pos() < fns[j].Pos()
	})
	return fns, nil
}

func outermost(fn *ssa.Function) *ssa.Function {
	for fn.Parent() != nil {
		fn = fn.Parent()
	}
	return fn
}

// writeTarget returns the address (or map, or destination slice) an instruction writes through.
func writeTarget(ins ssa.Instruction) (ssa.Value, string) {
	switch ins := ins.(type) {
	case *ssa.Store:
		return ins.Addr, "store"
	case *ssa.MapUpdate:
		return ins.Map, "mapupdate"
	case *ssa.Call:
		if b, ok := ins.Call.Value.(*ssa.Builtin); ok && len(ins.Call.Args) > 0 {
			switch b.Name() {
			case "append", "delete", "copy", "clear":
				return ins.Call.Args[0], b.Name()
			}
		}
	}
	return nil, ""
}

// roots follows an address back to the FreeVars and Globals it is computed from.
func roots(v ssa.Value) []ssa.Value {
	var out []ssa.Value
	seen := map[ssa.Value]bool{}
	var walk func(v ssa.Value)
	walk = func(v ssa.Value) {
		if v == nil || seen[v] {
			return
		}
		seen[v] = true
		switch v := v.(type) {
		case *ssa.FreeVar, *ssa.Global:
			out = append(out, v)
		case *ssa.FieldAddr:
			walk(v.X)
		case *ssa.IndexAddr:
			walk(v.X)
		case *ssa.Field:
			walk(v.X)
		case *ssa.Index:
			walk(v.X)
		case *ssa.Lookup:
			walk(v.X)
		case *ssa.UnOp:
			if v.Op == token.MUL { // load
				walk(v.X)
			}
		case *ssa.Slice:
			walk(v.X)
		case *ssa.ChangeType:
			walk(v.X)
		case *ssa.Convert:
			walk(v.X)
		case *ssa.ChangeInterface:
			walk(v.X)
		case *ssa.MakeInterface:
			walk(v.X)
		case *ssa.TypeAssert:
			walk(v.X)
		case *ssa.SliceToArrayPointer:
			walk(v.X)
		case *ssa.Extract:
			switch t := v.Tuple.(type) {
			case *ssa.Lookup:
				walk(t.X)
			case *ssa.TypeAssert:
				walk(t.X)
			}
		case *ssa.Phi:
			for _, e := range v.Edges {
				walk(e)
			}
		}
		// Alloc (a local), Parameter, Call results, constants: not a captured or global root.
	}
	walk(v)
	return out
}

func (a *writesAnalysis) fact(fn *ssa.Function, ins ssa.Instruction, root ssa.Value, kind string) writeFact {
	top := outermost(fn)
	f := writeFact{
		Pkg:    a.p.RelPkg(top.Pkg.Pkg.Path()),
		Fn:     fn.RelString(top.Pkg.Pkg),
		Var:    root.Name(),
		Kind:   kind,
		InInit: top.Name() == "init" || strings.HasPrefix(top.Name(), "init#"),
		Pos:    a.pos(fn, ins),
	}
	switch r := root.(type) {
	case *ssa.Global:
		f.Cls = "global"
		if strings.HasPrefix(kind, "call ") {
			f.Cls = "globalCall"
		}
		if r.Pkg != top.Pkg {
			f.Var = r.Pkg.Pkg.Path() + "." + r.Name()
		}
	case *ssa.FreeVar:
		res := a.varEscapes(fn, r)
		switch {
		case res.escapes:
			f.Cls, f.Why = "capturedEscaping", res.why
		case a.once[fn]:
			f.Cls = "synchronised"
		default:
			f.Cls = "capturedLocal"
		}
	}
	return f
}

func (a *writesAnalysis) pos(fn *ssa.Function, ins ssa.Instruction) string {
	pos := ins.Pos()
	if !pos.IsValid() {
		// stores of increments etc. carry no position of their own: use the nearest one
		for _, b := range fn.Blocks {
			for i, x := range b.Instrs {
				if x == ins {
					for j := i; j >= 0 && !pos.IsValid(); j-- {
						pos = b.Instrs[j].Pos()
					}
				}
			}
		}
	}
	if !pos.IsValid() {
		pos = fn.Pos()
	}
	if !pos.IsValid() {
		return "?"
	}
	pp := a.p.SSA.Fset.Position(pos)
	rel, err := filepath.Rel(a.repoDir(), pp.Filename)
	if err != nil || strings.HasPrefix(rel, "..") {
		rel = filepath.Base(pp.Filename)
	}
	return fmt.Sprintf("%s:%d", rel, pp.Line)
}

func (a *writesAnalysis) repoDir() string {
	for _, pkg := range a.p.Pkgs {
		if pkg.Module != nil && pkg.Module.Main {
			return pkg.Module.Dir
		}
	}
	return "/"
}

// varEscapes: can closure fn write its free variable fv after the call that owns the variable
// has returned? The variable belongs to the nearest enclosing function in which the binding
// is not itself a free variable.
func (a *writesAnalysis) varEscapes(fn *ssa.Function, fv *ssa.FreeVar) escapeResult {
	res := a.closureEscapes(fn)
	if res.escapes {
		return *res
	}
	idx := -1
	for i, x := range fn.FreeVars {
		if x == fv {
			idx = i
		}
	}
	for _, mc := range a.closure[fn] {
		if idx >= 0 && idx < len(mc.Bindings) {
			if outer, ok := mc.Bindings[idx].(*ssa.FreeVar); ok && fn.Parent() != nil {
				if r := a.varEscapes(fn.Parent(), outer); r.escapes {
					return escapeResult{true, "is created in " + fn.Parent().Name() + ", which " + r.why}
				}
			}
		}
	}
	return escapeResult{}
}

// closureEscapes: does any closure value made from fn outlive the call that made it?
func (a *writesAnalysis) closureEscapes(fn *ssa.Function) *escapeResult {
	if r, ok := a.memo[fn]; ok {
		return r
	}
	r := &escapeResult{}
	a.memo[fn] = r // cycles: assume not escaping while exploring
	sites := a.closure[fn]
	if len(sites) == 0 && fn.Parent() != nil {
		*r = escapeResult{true, "has no visible creation site"}
		return r
	}
	for _, mc := range sites {
		if esc, why := a.flows(mc, fn, map[ssa.Value]bool{}); esc {
			*r = escapeResult{true, why}
			return r
		}
	}
	return r
}

// flows reports whether value v (a closure made from fn, or something holding it) reaches
// a place from which it can be called after the current call has returned.
func (a *writesAnalysis) flows(v ssa.Value, fn *ssa.Function, seen map[ssa.Value]bool) (bool, string) {
	if seen[v] {
		return false, ""
	}
	seen[v] = true
	refs := v.Referrers()
	if refs == nil {
		return true, "is used in a way the analysis cannot follow"
	}
	for _, ins := range *refs {
		switch ins := ins.(type) {
		case *ssa.DebugRef:
		case *ssa.Return:
			return true, "flows to a return"
		case *ssa.Go:
			return true, "is started or passed by a go statement"
		case *ssa.Send:
			return true, "is sent on a channel"
		case *ssa.MapUpdate:
			if ins.Map == v {
				continue
			}
			return true, "is stored in a map element"
		case *ssa.Call:
			if esc, why := a.callUse(&ins.Call, v, fn, seen); esc {
				return true, why
			}
		case *ssa.Defer:
			if esc, why := a.callUse(&ins.Call, v, fn, seen); esc {
				return true, why
			}
		case *ssa.Store:
			if ins.Addr == v {
				continue // v is a cell being assigned
			}
			cell, ok := ins.Addr.(*ssa.Alloc)
			if !ok {
				return true, "is stored in " + describeAddr(ins.Addr)
			}
			// a local variable holding the closure: follow the variable
			if esc, why := a.flows(cell, fn, seen); esc {
				return true, why
			}
		case *ssa.UnOp:
			if ins.Op == token.MUL { // load from a cell
				if esc, why := a.flows(ins, fn, seen); esc {
					return true, why
				}
			}
		case *ssa.Phi, *ssa.ChangeType, *ssa.MakeInterface, *ssa.ChangeInterface, *ssa.Convert:
			if esc, why := a.flows(ins.(ssa.Value), fn, seen); esc {
				return true, why
			}
		case *ssa.MakeClosure:
			// the cell holding the closure is captured by another closure g; inside g the
			// corresponding free variable is the same cell
			g := ins.Fn.(*ssa.Function)
			for i, b := range ins.Bindings {
				if b == v && i < len(g.FreeVars) {
					if esc, why := a.flows(g.FreeVars[i], fn, seen); esc {
						return true, why
					}
				}
			}
			if g != fn {
				if r := a.closureEscapes(g); r.escapes {
					return true, "is captured by " + g.Name() + ", which " + r.why
				}
			}
		case *ssa.BinOp, *ssa.If:
			// comparison with nil
		default:
			return true, fmt.Sprintf("is used by %T", ins)
		}
	}
	return false, ""
}

func describeAddr(v ssa.Value) string {
	switch v := v.(type) {
	case *ssa.FieldAddr:
		return "a struct field"
	case *ssa.IndexAddr:
		return "a slice or array element"
	case *ssa.Global:
		return "package-level variable " + v.Name()
	case *ssa.FreeVar:
		return "captured variable " + v.Name()
	}
	return "memory"
}

// callUse examines one call in which v occurs (as the callee or as an argument).
func (a *writesAnalysis) callUse(c *ssa.CallCommon, v ssa.Value, fn *ssa.Function, seen map[ssa.Value]bool) (bool, string) {
	for i, arg := range c.Args {
		if arg != v {
			continue
		}
		if c.IsInvoke() {
			return true, "is passed to interface method " + c.Method.Name()
		}
		callee := c.StaticCallee()
		if callee == nil {
			return true, "is passed to a dynamically chosen function"
		}
		name := calleeName(callee)
		if synchronousConsumers[name] {
			if name == "(*sync.Once).Do" {
				a.once[fn] = true
			}
			continue
		}
		if top := outermost(callee); top.Pkg != nil && a.lib[top.Pkg] && callee.Blocks != nil && i < len(callee.Params) {
			// a function of the library: follow the parameter inside it
			if esc, why := a.flows(callee.Params[i], fn, seen); esc {
				return true, "is passed to " + name + ", where it " + why
			}
			continue
		}
		return true, "is passed to " + name
	}
	// v in callee position: a direct (or deferred) call runs before the creator returns
	return false, ""
}

func calleeName(f *ssa.Function) string {
	if f.Signature.Recv() != nil {
		return "(" + types.TypeString(f.Signature.Recv().Type(), nil) + ")." + f.Name()
	}
	if f.Pkg != nil {
		return f.Pkg.Pkg.Path() + "." + f.Name()
	}
	return f.String()
}

type globalCall struct {
	root   *ssa.Global
	callee string
}

// readOnlyCallees: functions and methods of standard-library packages trusted, BY PACKAGE PATH, not to change the
// value they are handed (the compiled regexps, reflect.Type values, fmt verbs). The trust is per package, not per
// function, so it must not name a package whose ordinary use is to write through its argument: `sort` (sort.Sort,
// sort.Slice, sort.Strings permute the slice in place) and `bytes` ((*bytes.Buffer).Write) are NOT on the list - a
// package-level slice sorted in place, or a package-level buffer, is a globalCall fact. Of the packages that remain,
// two have writers that are excluded by name below: (*strings.Builder) methods and the (reflect.Value).Set* family.
func readOnlyCallee(callee *ssa.Function) bool {
	if callee == nil || callee.Pkg == nil {
		return false
	}
	switch callee.Pkg.Pkg.Path() {
	case "regexp", "reflect", "fmt", "strings", "strconv", "unicode", "unicode/utf8", "errors", "math", "time", "html", "net/url":
		return !writerByName(callee)
	}
	return false
}

// sealedReadOnlyInterface: a method call through an interface type that is DECLARED in one of the trusted read-only
// packages and has an unexported method, so that no type outside that package can implement it (reflect.Type, whose
// only implementation is reflect's own): the callee is then a method of that package whatever the dynamic type, and
// the per-package trust applies. An open interface (error, fmt.Stringer, io.Writer) stays a call to unknown code.
func sealedReadOnlyInterface(t types.Type) bool {
	named, ok := t.(*types.Named)
	if !ok || named.Obj() == nil || named.Obj().Pkg() == nil {
		return false
	}
	switch named.Obj().Pkg().Path() {
	case "regexp", "reflect", "fmt", "strings", "strconv", "unicode", "unicode/utf8", "errors", "math", "time", "html", "net/url":
	default:
		return false
	}
	iface, ok := named.Underlying().(*types.Interface)
	if !ok {
		return false
	}
	for i := 0; i < iface.NumMethods(); i++ {
		if !iface.Method(i).Exported() {
			return true
		}
	}
	return false
}

// writerByName: the members of the trusted packages that do write through their receiver.
func writerByName(callee *ssa.Function) bool {
	sig := callee.Signature
	if sig == nil || sig.Recv() == nil {
		return false
	}
	recv := sig.Recv().Type().String()
	switch {
	case strings.HasSuffix(recv, "strings.Builder"): // *strings.Builder: Write*, Grow, Reset
		return true
	case recv == "reflect.Value" && (strings.HasPrefix(callee.Name(), "Set") || callee.Name() == "Grow" || callee.Name() == "Clear"):
		return true
	}
	return false
}

// globalCalls: the package-level variables of the LIBRARY whose address, or a reference value loaded from them
// (pointer, map, slice, channel, interface, func), is the receiver or an argument of a call that is not known
// to be read-only. Calls into the library's own functions are followed by the store analysis of those
// functions only when they write through a package-level root themselves, so a pointer parameter is treated as
// written by the callee unless the callee is in the read-only list.
func globalCalls(ins ssa.Instruction) []globalCall {
	ci, ok := ins.(ssa.CallInstruction)
	if !ok {
		return nil
	}
	com := ci.Common()
	if _, isBuiltin := com.Value.(*ssa.Builtin); isBuiltin {
		return nil
	}
	name := ""
	var callee *ssa.Function
	if com.IsInvoke() {
		name = "interface method " + com.Method.Name()
	} else if callee = com.StaticCallee(); callee != nil {
		name = callee.String()
	} else {
		name = "a function value"
	}
	if readOnlyCallee(callee) {
		return nil
	}
	if com.IsInvoke() && sealedReadOnlyInterface(com.Value.Type()) {
		return nil
	}
	var out []globalCall
	seen := map[*ssa.Global]bool{}
	args := com.Args
	if com.IsInvoke() {
		args = append([]ssa.Value{com.Value}, args...)
	}
	for _, arg := range args {
		if !mayBeWrittenThrough(arg.Type()) {
			continue
		}
		for _, r := range roots(arg) {
			if g, ok := r.(*ssa.Global); ok && !seen[g] {
				seen[g] = true
				out = append(out, globalCall{g, name})
			}
		}
	}
	return out
}

// mayBeWrittenThrough: can a callee change shared memory through a value of this type?
func mayBeWrittenThrough(t types.Type) bool {
	// a value of a sealed interface type of a trusted read-only package (reflect.Type) can be used only through that
	// package's own methods, whoever holds it: handing it to a callee of the library (conversionError(value, typ)) is
	// not handing out something the callee could write through
	if sealedReadOnlyInterface(t) {
		return false
	}
	switch u := t.Underlying().(type) {
	case *types.Pointer, *types.Map, *types.Slice, *types.Chan:
		return true
	case *types.Interface, *types.Signature:
		return true
	case *types.Struct:
		for i := 0; i < u.NumFields(); i++ {
			if mayBeWrittenThrough(u.Field(i).Type()) {
				return true
			}
		}
	}
	return false
}

var auditedGlobalRe = regexp.MustCompile(`\("([^"]*)", "([^"]*)"\)`)

// auditedGlobalCall: is (pkg, var) in the table auditedGlobalCalls of Liquid/ConcFacts.lean? (diagnostics only:
// the Lean obligation global_calls_audited is what decides)
func auditedGlobalCall(c *Ctx, pkg, v string) bool {
	src, err := os.ReadFile(filepath.Join(c.Out, "..", "ConcFacts.lean"))
	if err != nil {
		return true
	}
	i := strings.Index(string(src), "def auditedGlobalCalls")
	if i < 0 {
		return true
	}
	for _, m := range auditedGlobalRe.FindAllStringSubmatch(string(src)[i:], -1) {
		if m[1] == pkg && m[2] == v {
			return true
		}
	}
	return false
}
