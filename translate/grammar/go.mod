module veriftranslate/grammar

go 1.21
